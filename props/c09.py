"""C09 -- remote exceptions arrive as the same class with the same data, and safely.

Encoded (re-read from /repo at every run): vinegar.dump, vinegar.load,
vinegar._get_exception_class, Connection._box_exc/_unbox_exc, brine.dumpable.
The six exception-related switches are solver Bools; classes, names and
argument shapes are finite exhaustive choices.
"""
import builtins
import sys
import types

import z3

from engine import core, values as V
from engine.core import ctx
from engine.harness import Run, Acc, par_explore
from engine.interp import Interp
from engine.values import Sym, SymBool, SymInt
from specs import plain_sym as P


def builtin_exception_classes():
    out = []
    for n in sorted(dir(builtins)):
        o = getattr(builtins, n)
        if isinstance(o, type) and issubclass(o, BaseException) and o.__name__ == n:
            out.append(o)
    return out


class Canary(object):
    log = []


class MyExc(Exception):
    """a custom exception class living in an already-imported module; its
    constructor is a canary: it must never run on the receiver"""

    def __init__(self, *a):
        Canary.log.append(("MyExc.__init__", a))
        Exception.__init__(self, *a)


class NotAnException(object):
    def __init__(self, *a):
        Canary.log.append(("NotAnException.__init__", a))


def make_modules():
    mymod = types.ModuleType("mymod")
    mymod.MyExc = MyExc
    mymod.NotAnException = NotAnException
    mymod.func = len
    mymod.KeyError = type("KeyError", (Exception,), {"__module__": "mymod"})     # a custom class bearing a built-in's bare name
    lazy = types.ModuleType("lazymod")
    lazy.LazyExc = type("LazyExc", (Exception,), {"__module__": "lazymod"})
    return mymod, lazy


class FakeSys(object):
    def __init__(self, modules):
        self.modules = modules
        self.exc_info = sys.exc_info
        self.platform = sys.platform


REPLAY_HEAD = '''# replay of a counterexample found by /verif (property C09) on the real rpyc
import sys, types, builtins
sys.path.insert(0, __import__("os").environ.get("VERIF_REPO", "/repo"))
from rpyc.core import vinegar, brine
import rpyc
log = []
class MyExc(Exception):
    def __init__(self, *a):
        log.append("MyExc.__init__"); Exception.__init__(self, *a)
class NotAnException(object):
    def __init__(self, *a): log.append("NotAnException.__init__")
mymod = types.ModuleType("mymod"); mymod.MyExc = MyExc; MyExc.__module__ = "mymod"; mymod.NotAnException = NotAnException; mymod.func = len
mymod.KeyError = type("KeyError", (Exception,), {"__module__": "mymod"})
sys.modules["mymod"] = mymod
real_import = builtins.__import__
def spy_import(name, *a, **k):
    log.append("import " + name); return real_import(name, *a, **k)
'''


def ob_load(run, interp):
    from rpyc.core import vinegar
    classes = builtin_exception_classes()
    MODS = ["builtins", "mymod", "lazymod", "nosuchmod", "os", ""]
    NAMES = [c.__name__ for c in classes] + ["len", "int", "object", "MyExc", "NotAnException", "func", "LazyExc", "NoSuchName", "__import__", "eval"]

    def ob(o):
        o.symbolic = ["import_custom_exceptions, instantiate_custom_exceptions, instantiate_oldstyle_exceptions: Bool",
                      "module name: exhaustive over %s" % MODS, "class name: exhaustive over %d names (all built-in exception classes, non-exception builtins, custom, unknown)" % len(NAMES),
                      "argument tuple: symbolic Int / text members"]
        acc = Acc()

        def harness(c):
            mymod, lazy = make_modules()
            mods = {"builtins": builtins, "mymod": mymod, "os": __import__("os")}
            fsys = FakeSys(mods)
            imports = []

            def fake_import(name, *a, **k):
                imports.append(name)
                if name == "lazymod":
                    mods["lazymod"] = lazy
                    return lazy
                raise ImportError(name)
            interp.override_global(vinegar, "sys", fsys)
            interp.override_global(vinegar, "__import__", fake_import)
            del Canary.log[:]
            sw = [SymBool(c.fresh_bool(n)) for n in ("import_custom", "instantiate_custom", "instantiate_oldstyle")]
            mod = MODS[c.choose(len(MODS), "module")]
            name = NAMES[c.choose(len(NAMES), "class")] if mod in ("builtins",) else \
                ["ValueError", "MyExc", "NotAnException", "func", "LazyExc", "NoSuchName", "path"][c.choose(7, "class")]
            args = (SymInt(c.fresh_int("arg")), "text")
            attrs = (("errno", 5), ("_remote_version", "5.0.1"), ("readonly_args", 1))
            c.notes.update(sw=sw, mod=mod, name=name, imports=imports, mods=mods, args=args)
            val = ((mod, name), args, attrs, "TRACEBACK TEXT")
            return interp.call(vinegar.load, (val, sw[0], sw[1], sw[2]))

        def on_path(r):
            c = r.ctx
            if r.outcome == "abort":
                return
            n = c.notes
            imp, inst, old = [s.e for s in n["sw"]]
            mod, name = n["mod"], n["name"]
            acc.inc("mod:" + mod)
            bad = None
            conds = []
            if r.outcome != "return":
                bad = "load raised %s: %s" % (type(r.exc).__name__ if r.exc else r.outcome, r.exc)
            else:
                exc = r.value
                cls = type(exc)
                # reference resolution (exc_spec)
                real = None
                in_modules_initially = mod in ("builtins", "mymod", "os")
                importable = mod == "lazymod"
                if mod == "builtins":
                    cand = getattr(builtins, name, None)
                    builtin_ok = isinstance(cand, type) and issubclass(cand, BaseException)
                    if builtin_ok:
                        # built-in class: the real class whatever the switches say
                        want_real = z3.BoolVal(True)
                        real = cand
                    else:
                        want_real = z3.BoolVal(False)
                else:
                    src = {"mymod": n["mods"]["mymod"], "os": n["mods"]["os"], "lazymod": make_modules()[1]}.get(mod)
                    cand = getattr(src, name, None) if src is not None else None
                    ok_cls = isinstance(cand, type) and issubclass(cand, BaseException)
                    if ok_cls:
                        real = cand
                        avail = z3.BoolVal(True) if in_modules_initially else (imp if importable else z3.BoolVal(False))
                        want_real = z3.And(inst, avail)
                    else:
                        want_real = z3.BoolVal(False)
                is_real = real is not None and isinstance(exc, real) and cls.__name__ == real.__name__
                is_generic = isinstance(exc, vinegar.GenericException) and cls.__name__ == "%s.%s" % (mod, name)
                if real is not None and real.__name__ == "LazyExc":
                    is_real = isinstance(exc, Exception) and cls.__name__ == "LazyExc" and not isinstance(exc, vinegar.GenericException)
                conds.append(z3.BoolVal(is_real) == want_real)
                conds.append(z3.BoolVal(is_generic) == z3.Not(want_real))
                # imports only when allowed and needed
                want_import = z3.And(imp, z3.BoolVal(not in_modules_initially))
                conds.append(z3.BoolVal(bool(n["imports"])) == want_import)
                if any(i != mod for i in n["imports"]):
                    bad = "imported %s while resolving module %r" % (n["imports"], mod)
                if Canary.log:
                    bad = "a constructor ran on the receiver: %s" % (Canary.log,)
                if not isinstance(exc, BaseException):
                    bad = "result is not an exception: %r" % (cls,)
                elif tuple(exc.args) != tuple(n["args"]):
                    bad = "args not preserved"
                elif getattr(exc, "errno", None) != 5 or "TRACEBACK TEXT" not in exc._remote_tb:
                    bad = "attributes / remote traceback not preserved"
            model = None
            if bad is None and conds:
                ok, model = c.must_hold(z3.And(*conds))
                if not ok:
                    bad = "class resolution for %s.%s differs from the specification" % (mod, name)
            if len(o.samples) < 6 and r.outcome == "return":
                o.samples.append({"record": "%s.%s" % (mod, name), "result_class": type(r.value).__name__, "imports": n["imports"]})
            if bad and len(o.violations) < 6:
                m = model or c.check_model()
                if m is None:
                    return
                sw = [z3.is_true(m.eval(s.e, model_completion=True)) for s in n["sw"]]
                sig = "load:%s:%s" % (mod, name)
                if any(v["signature"] == sig for v in o.violations):
                    return
                run.replay(o, sig, "%s (switches import=%s instantiate=%s oldstyle=%s)" % ((bad,) + tuple(sw)), replay_load(mod, name, sw))

        n_, incomplete = par_explore(run, o, harness, on_path, acc, split_depth=5)
        o.paths = dict(acc.counts, total=n_)
        if incomplete:
            o.verdict = "inconclusive"
            o.detail = incomplete
        for m in MODS:
            if not acc.counts.get("mod:" + m):
                raise core.HarnessError("reachability twin: module %r never resolved" % m)
    return ob


def replay_load(mod, name, sw):
    return REPLAY_HEAD + '''
mod, name, sw = %r, %r, %r
vinegar.__dict__["__import__"] = spy_import
sys.modules.pop("lazymod", None)
val = ((mod, name), (7, "text"), (("errno", 5),), "TRACEBACK TEXT")
try:
    exc = vinegar.load(val, *sw)
except Exception as e:
    print("load raised", type(e).__name__, e)
    print("REPRODUCED"); sys.exit(1)
imp, inst, old = sw
cand = getattr(sys.modules.get(mod), name, None) if mod in ("builtins", "mymod", "os") else None
ok_cls = isinstance(cand, type) and issubclass(cand, BaseException)
want_real = ok_cls and (mod == "builtins" or inst)
is_real = ok_cls and isinstance(exc, cand)
is_generic = isinstance(exc, vinegar.GenericException)
bad = []
if is_real != want_real: bad.append("real class %%r, expected %%r" %% (is_real, want_real))
if is_generic == want_real: bad.append("generic %%r" %% is_generic)
imports = [l for l in log if l.startswith("import")]
if bool(imports) != (imp and mod not in ("builtins", "mymod", "os")): bad.append("imports %%r" %% imports)
if [l for l in log if "__init__" in l]: bad.append("constructor ran: %%r" %% log)
print(type(exc), bad, log)
if bad:
    print("REPRODUCED"); sys.exit(1)
''' % (mod, name, sw)


# ---------------------------------------------------------------------------
class Weird(object):
    def __repr__(self):
        return "<weird>"


def ob_roundtrip(run, interp):
    from rpyc.core import vinegar, brine
    from rpyc.core.protocol import Connection, DEFAULT_CONFIG
    import rpyc
    classes = builtin_exception_classes()
    ARGS = ["()", "(int,)", "(text, nonplain)", "(tuple,)", "(tuple, nonplain, frozenset)"]

    def ob(o):
        o.symbolic = ["include_local_traceback, include_local_version (sender): Bool", "the three receiver switches: Bool",
                      "class: exhaustive over the %d built-in exception classes" % len(classes), "argument shapes: %s with symbolic members" % ARGS]
        acc = Acc()

        def harness(c):
            interp.global_overrides.pop(id(vinegar.__dict__), None)
            cls = classes[c.choose(len(classes), "class")]
            ak = c.choose(len(ARGS), "args")
            if ak == 0:
                args = ()
            elif ak == 1:
                args = (SymInt(c.fresh_int("arg")),)
            elif ak == 2:
                args = ("text", Weird())
            elif ak == 3:
                args = ((1, SymInt(c.fresh_int("arg"))),)
            else:
                # immutable containers next to a non-plain argument: the containers are kept, only the other is described
                args = ((1, 2), Weird(), frozenset((3,)))
            try:
                e = cls.__new__(cls)
                e.args = args
            except TypeError:
                e = cls("group", [ValueError(1)])      # exception groups insist on constructor arguments
                args = e.args
            try:
                e.public_attr = 42
                e._private_attr = 43
            except Exception:
                pass
            try:
                raise e
            except BaseException:
                typ, val, tb = sys.exc_info()
            send = dict(DEFAULT_CONFIG)
            ilt, ilv = SymBool(c.fresh_bool("include_local_traceback")), SymBool(c.fresh_bool("include_local_version"))
            send["include_local_traceback"], send["include_local_version"] = ilt, ilv
            recv = dict(DEFAULT_CONFIG)
            sw = [SymBool(c.fresh_bool(n)) for n in ("import_custom", "instantiate_custom", "instantiate_oldstyle")]
            recv["import_custom_exceptions"], recv["instantiate_custom_exceptions"], recv["instantiate_oldstyle_exceptions"] = sw
            tx, rx = object.__new__(Connection), object.__new__(Connection)
            tx._closed = rx._closed = True
            tx._config, rx._config = send, recv
            c.notes.update(cls=cls, args=args, ilt=ilt, ilv=ilv, ak=ak)
            rec = interp.call(Connection._box_exc, (tx, typ, val, tb))
            c.notes["rec"] = rec
            c.notes["dumpable"] = interp.call(brine.dumpable, (rec,))
            return interp.call(Connection._unbox_exc, (rx, rec))

        def on_path(r):
            c = r.ctx
            if r.outcome == "abort":
                return
            n = c.notes
            if "cls" not in n:
                raise core.HarnessError("round-trip harness failed before the exchange: %r" % (r.exc,))
            cls = n["cls"]
            acc.inc("checked")
            bad = None
            conds = []
            if r.outcome != "return":
                bad = "raised %s: %s" % (type(r.exc).__name__ if r.exc else r.outcome, r.exc)
            elif n["dumpable"] is not True:
                bad = "the exception record is not serializable"
            elif cls is StopIteration:
                if not (r.value is StopIteration or isinstance(r.value, StopIteration)):
                    bad = "StopIteration arrived as %r" % (r.value,)
            else:
                exc = r.value
                if not isinstance(exc, cls):
                    bad = "%s arrived as %s" % (cls.__name__, type(exc).__mro__[:3])
                else:
                    want = tuple(a if P.is_plain(a) else repr(a) for a in n["args"])
                    got = tuple(exc.args)
                    if len(got) != len(want) or any(not _same(a, b) for a, b in zip(got, want)):
                        bad = "arguments %r arrived as %r" % (want, got)
                    if getattr(exc, "public_attr", None) != 42 and hasattr(cls.__new__(cls), "__dict__"):
                        bad = bad or "public data attribute lost"
                    if hasattr(exc, "_private_attr"):
                        bad = bad or "private attribute disclosed"
                    tbt = getattr(exc, "_remote_tb", None)
                    has_tb = isinstance(tbt, str) and "Traceback (most recent call last)" in tbt
                    denied = isinstance(tbt, str) and "<traceback denied>" in tbt
                    conds.append(z3.BoolVal(has_tb) == n["ilt"].e)
                    conds.append(z3.BoolVal(denied) == z3.Not(n["ilt"].e))
                    ver = getattr(exc, "_remote_version", None)
                    import rpyc
                    conds.append(z3.BoolVal(ver == rpyc.version.version_string) == n["ilv"].e)
                    conds.append(z3.BoolVal(ver == "<version denied>") == z3.Not(n["ilv"].e))
            model = None
            if bad is None and conds:
                ok, model = c.must_hold(z3.And(*conds))
                if not ok:
                    bad = "traceback/version disclosure does not follow the sender's switches"
            if len(o.samples) < 5 and r.outcome == "return":
                o.samples.append({"class": cls.__name__, "args_shape": ARGS[n["ak"]], "arrived_as": type(r.value).__name__})
            if bad and len(o.violations) < 6:
                m = model or c.check_model()
                if m is None:
                    return
                flags = [z3.is_true(m.eval(x.e, model_completion=True)) for x in (n["ilt"], n["ilv"])]
                sig = "roundtrip:%s:%s" % (cls.__name__ if "Group" in cls.__name__ else "*", bad.split()[0])
                if any(v["signature"] == sig for v in o.violations):
                    return
                run.replay(o, sig, "%s (class %s, args %s, traceback=%s version=%s)" % (bad, cls.__name__, ARGS[n["ak"]], flags[0], flags[1]),
                           replay_roundtrip(cls.__name__, n["ak"], flags))

        n_, incomplete = par_explore(run, o, harness, on_path, acc, split_depth=3)
        o.paths = dict(acc.counts, total=n_)
        if incomplete:
            o.verdict = "inconclusive"
            o.detail = incomplete
        if not acc.counts.get("checked"):
            raise core.HarnessError("reachability twin")
    return ob


def _same(a, b):
    if isinstance(a, Sym) or isinstance(b, Sym):
        return a is b
    if type(a) is tuple and type(b) is tuple:
        return len(a) == len(b) and all(_same(x, y) for x, y in zip(a, b))
    return type(a) is type(b) and a == b


def replay_roundtrip(clsname, ak, flags):
    return REPLAY_HEAD + '''
clsname, ak, (ilt, ilv) = %r, %d, %r
class Weird(object):
    def __repr__(self): return "<weird>"
cls = getattr(builtins, clsname)
args = [(), (7,), ("text", Weird()), ((1, 7),), ((1, 2), Weird(), frozenset((3,)))][ak]
try:
    e = cls.__new__(cls); e.args = args
except TypeError:
    e = cls("group", [ValueError(1)]); args = e.args
try:
    e.public_attr = 42; e._private_attr = 43
except Exception: pass
try: raise e
except BaseException: typ, val, tb = sys.exc_info()
rec = vinegar.dump(typ, val, tb, ilt, ilv)
bad = []
if not brine.dumpable(rec): bad.append("record not serializable")
try:
    out = vinegar.load(brine.load(brine.dump(rec)) if brine.dumpable(rec) else rec, False, False, False)
except Exception as x:
    print("load raised", type(x).__name__, x)
    print("REPRODUCED"); sys.exit(1)
if cls is StopIteration:
    if not (out is StopIteration or isinstance(out, StopIteration)): bad.append("StopIteration -> %%r" %% (out,))
else:
    if not isinstance(out, cls): bad.append("arrived as %%r" %% (type(out).__mro__[:3],))
    want = tuple(a if type(a) in (int, str, tuple, frozenset) else repr(a) for a in args)
    if tuple(out.args) != want: bad.append("args %%r" %% (out.args,))
    if hasattr(out, "_private_attr"): bad.append("private attribute disclosed")
    tbt = getattr(out, "_remote_tb", "")
    if ("Traceback (most recent call last)" in tbt) != ilt or ("<traceback denied>" in tbt) == ilt: bad.append("traceback disclosure")
    ver = getattr(out, "_remote_version", None)
    if (ver == rpyc.version.version_string) != ilv or (ver == "<version denied>") == ilv: bad.append("version disclosure %%r" %% ver)
print(bad)
if bad:
    print("REPRODUCED"); sys.exit(1)
''' % (clsname, ak, flags)


# ---------------------------------------------------------------------------
def ob_hostile(run, interp):
    """arbitrary serializable payloads in place of a genuine exception record"""
    from rpyc.core import vinegar
    PAYLOADS = [5, 1, "text", None, (), (1, 2, 3, 4), (("a",), (), (), ""), (("builtins", "ValueError"), 5, (), ""),
                (("builtins", "ValueError"), (), 5, ""), (("builtins", "ValueError"), (), (("x",),), ""),
                (("builtins", "ValueError"), (), ((5, 6),), 7), ((5, 6), (), (), ""), (("os", "system"), ("id",), (), ""),
                (("builtins", "eval"), ("1",), (), ""), (("builtins", "__import__"), ("os",), (), ""),
                (("mymod", "NotAnException"), (), (), ""), (("mymod", "MyExc"), (1,), (("args", 5), ("__class__", int)), ""),
                (("subprocess", "Popen"), ("id",), (), ""), (("builtins", "SystemExit"), (), (("code", 3),), "")]

    def ob(o):
        o.symbolic = ["the three receiver switches: Bool", "payload: exhaustive over %d crafted shapes" % len(PAYLOADS)]
        acc = Acc()

        def harness(c):
            mymod, lazy = make_modules()
            mods = {"builtins": builtins, "mymod": mymod, "os": __import__("os")}
            imports = []

            def fake_import(name, *a, **k):
                imports.append(name)
                raise ImportError(name)
            interp.override_global(vinegar, "sys", FakeSys(mods))
            interp.override_global(vinegar, "__import__", fake_import)
            del Canary.log[:]
            sw = [SymBool(c.fresh_bool(n)) for n in ("import_custom", "instantiate_custom", "instantiate_oldstyle")]
            p = PAYLOADS[c.choose(len(PAYLOADS), "payload")]
            c.notes.update(sw=sw, p=p, imports=imports)
            return interp.call(vinegar.load, (p, sw[0], sw[1], sw[2]))

        def on_path(r):
            c = r.ctx
            if r.outcome == "abort":
                return
            n = c.notes
            acc.inc(r.outcome)
            bad = None
            conds = []
            if Canary.log:
                bad = "a constructor ran: %s" % (Canary.log,)
            # imports only if import_custom is on
            conds.append(z3.Implies(z3.BoolVal(bool(n["imports"])), n["sw"][0].e))
            if r.outcome == "return" and not (isinstance(r.value, BaseException) or r.value is StopIteration or type(r.value) is str):
                bad = "load returned a %s" % type(r.value).__name__
            ok, model = c.must_hold(z3.And(*conds))
            if not ok:
                bad = "module imported although import_custom_exceptions is off"
            if len(o.samples) < 4:
                o.samples.append({"payload": repr(n["p"])[:60], "outcome": r.outcome if r.outcome != "raise" else type(r.exc).__name__})
            if bad and len(o.violations) < 2:
                run.replay(o, "hostile:%s" % bad.split()[0], "%s on payload %r" % (bad, n["p"]), REPLAY_HEAD + '''
vinegar.__dict__["__import__"] = spy_import
p = %r
try:
    out = vinegar.load(p, False, False, False)
except Exception as e:
    out = e
print(type(out), log)
if log or not (isinstance(out, BaseException) or out is StopIteration or type(out) is str):
    print("REPRODUCED"); sys.exit(1)
''' % (n["p"],))

        n_, incomplete = par_explore(run, o, harness, on_path, acc, split_depth=4)
        o.paths = dict(acc.counts, total=n_)
        if incomplete:
            o.verdict = "inconclusive"
            o.detail = incomplete
    return ob

# ---------------------------------------------------------------------------
def _reset_module_state(module, pristine):
    """module-level mutable tables are part of the state a history runs over:
    every path starts from the tables as they were at import"""
    for k, v in pristine.items():
        g = getattr(module, k, None)
        if isinstance(g, dict):
            g.clear()
            g.update(v)


def ob_history(run, interp, warmups=1):
    """permission to use a class belongs to the call (the connection's
    switches), not to the process: two loads in a row with independent
    switches; the second is judged against its own switches only"""
    from rpyc.core import vinegar
    RECS = [("mymod", "MyExc"), ("lazymod", "LazyExc"), ("builtins", "KeyError"), ("mymod", "NotAnException"), ("nosuchmod", "X"),
            ("mymod", "KeyError")]     # same bare name as a built-in, different module: results must not be shared between the two

    def ob(o):
        o.symbolic = ["%d consecutive vinegar.load calls; each has its own three switches: %d Bools" % (warmups + 1, 3 * (warmups + 1)),
                      "records: exhaustive over %d^%d (module, class) tuples" % (len(RECS), warmups + 1)]
        o.bounds = {"history_length": warmups + 1}
        acc = Acc()

        def harness(c):
            pristine = getattr(ob_history, "_pristine", None)
            if pristine is None:
                pristine = ob_history._pristine = dict((k, dict(v)) for k, v in vars(vinegar).items() if type(v) is dict and not k.startswith("__"))
            _reset_module_state(vinegar, pristine)
            mymod, lazy = make_modules()
            mods = {"builtins": builtins, "mymod": mymod, "os": __import__("os")}
            imports = []

            def fake_import(name, *a, **k):
                imports.append(name)
                if name == "lazymod":
                    mods["lazymod"] = lazy
                    return lazy
                raise ImportError(name)
            interp.override_global(vinegar, "sys", FakeSys(mods))
            interp.override_global(vinegar, "__import__", fake_import)
            del Canary.log[:]
            for w_ in range(warmups - 1):
                # earlier loads of the history (thorough tier): any record, any switches
                sw0 = [SymBool(c.fresh_bool("load%d_%s" % (w_, n))) for n in ("import_custom", "instantiate_custom", "instantiate_oldstyle")]
                r0 = RECS[c.choose(len(RECS), "earlier")]
                interp.call(vinegar.load, ((r0, (0,), (), "TB0"), sw0[0], sw0[1], sw0[2]))
            sw1 = [SymBool(c.fresh_bool("first_" + n)) for n in ("import_custom", "instantiate_custom", "instantiate_oldstyle")]
            sw2 = [SymBool(c.fresh_bool("second_" + n)) for n in ("import_custom", "instantiate_custom", "instantiate_oldstyle")]
            r1 = RECS[c.choose(len(RECS), "first")]
            r2 = RECS[c.choose(len(RECS), "second")]
            interp.call(vinegar.load, ((r1, (1,), (), "TB1"), sw1[0], sw1[1], sw1[2]))
            present = r2[0] in mods
            n_imports = len(imports)
            c.notes.update(sw1=sw1, sw2=sw2, r1=r1, r2=r2, present=present, lazy=lazy, mymod=mymod)
            exc = interp.call(vinegar.load, ((r2, (2,), (), "TB2"), sw2[0], sw2[1], sw2[2]))
            c.notes.update(imports2=imports[n_imports:])
            return exc

        def on_path(r):
            c = r.ctx
            if r.outcome == "abort":
                return
            n = c.notes
            acc.inc("%s.%s>%s.%s" % (n["r1"] + n["r2"]))
            imp, inst, old = [s.e for s in n["sw2"]]
            mod, name = n["r2"]
            bad = None
            conds = []
            if r.outcome != "return":
                bad = "second load raised %s" % (type(r.exc).__name__ if r.exc else r.outcome)
            else:
                exc = r.value
                src = {"mymod": n["mymod"], "lazymod": n["lazy"], "builtins": builtins}.get(mod)
                cand = getattr(src, name, None) if src is not None else None
                ok_cls = isinstance(cand, type) and issubclass(cand, BaseException)
                if mod == "builtins":
                    want_real = z3.BoolVal(ok_cls)
                elif ok_cls:
                    avail = z3.BoolVal(True) if n["present"] else (imp if mod == "lazymod" else z3.BoolVal(False))
                    want_real = z3.And(inst, avail)
                else:
                    want_real = z3.BoolVal(False)
                is_real = ok_cls and isinstance(exc, cand) and type(exc).__name__ == cand.__name__ and not isinstance(exc, vinegar.GenericException)
                is_generic = isinstance(exc, vinegar.GenericException) and type(exc).__name__ == "%s.%s" % (mod, name)
                conds.append(z3.BoolVal(bool(is_real)) == want_real)
                conds.append(z3.BoolVal(bool(is_generic)) == z3.Not(want_real))
                conds.append(z3.BoolVal(bool(n["imports2"])) == z3.And(imp, z3.BoolVal(not n["present"])))
                if Canary.log:
                    bad = "a constructor ran on the receiver: %s" % (Canary.log,)
            model = None
            if bad is None and conds:
                ok, model = c.must_hold(z3.And(*conds))
                if not ok:
                    bad = "the second load of %s.%s does not follow its own switches after a load of %s.%s" % (mod, name, n["r1"][0], n["r1"][1])
            if len(o.samples) < 4 and r.outcome == "return":
                o.samples.append({"first": ".".join(n["r1"]), "second": ".".join(n["r2"]), "result_class": type(r.value).__name__})
            if bad and len(o.violations) < 4:
                m = model or c.check_model()
                if m is None:
                    return
                s1 = [z3.is_true(m.eval(s.e, model_completion=True)) for s in n["sw1"]]
                s2 = [z3.is_true(m.eval(s.e, model_completion=True)) for s in n["sw2"]]
                sig = "history:%s.%s>%s.%s" % (n["r1"] + n["r2"])
                if any(v["signature"] == sig for v in o.violations):
                    return
                run.replay(o, sig, "%s (first switches %s, second switches %s)" % (bad, s1, s2), replay_history(n["r1"], s1, n["r2"], s2))

        n_, incomplete = par_explore(run, o, harness, on_path, acc, split_depth=5)
        o.paths = dict(acc.counts, total=n_)
        if incomplete:
            o.verdict = "inconclusive"
            o.detail = incomplete
        if len(acc.counts) != len(RECS) ** 2:
            raise core.HarnessError("reachability twin: %d of %d record pairs completed" % (len(acc.counts), len(RECS) ** 2))
    return ob


def replay_history(r1, s1, r2, s2):
    return REPLAY_HEAD + """
r1, s1, r2, s2 = %r, %r, %r, %r
lazy = types.ModuleType("lazymod"); lazy.LazyExc = type("LazyExc", (Exception,), {"__module__": "lazymod"})
def spy2(name, *a, **k):
    log.append("import " + name)
    if name == "lazymod":
        sys.modules["lazymod"] = lazy; return lazy
    raise ImportError(name)
vinegar.__dict__["__import__"] = spy2
sys.modules.pop("lazymod", None)
vinegar.load((r1, (1,), (), "TB1"), *s1)
present = r2[0] in sys.modules
del log[:]
exc = vinegar.load((r2, (2,), (), "TB2"), *s2)
imp, inst, old = s2
mod, name = r2
cand = getattr({"mymod": mymod, "lazymod": lazy, "builtins": builtins}.get(mod), name, None)
ok_cls = isinstance(cand, type) and issubclass(cand, BaseException)
want_real = ok_cls and (mod == "builtins" or (inst and (present or (imp and mod == "lazymod"))))
is_real = ok_cls and isinstance(exc, cand) and type(exc).__name__ == cand.__name__ and not isinstance(exc, vinegar.GenericException)
bad = []
if is_real != want_real: bad.append("real class %%r, expected %%r" %% (is_real, want_real))
if isinstance(exc, vinegar.GenericException) == want_real: bad.append("generic stand-in: %%r" %% (not want_real,))
if bool([l for l in log if l.startswith("import")]) != (imp and not present): bad.append("imports %%r" %% log)
if [l for l in log if "__init__" in l]: bad.append("constructor ran")
print(type(exc), bad)
if bad:
    print("REPRODUCED"); sys.exit(1)
""" % (r1, s1, r2, s2)


def main():
    run = Run("C09", level="other")
    interp = Interp()
    run.assumptions = ["class / module / attribute names and argument shapes are finite exhaustive choices (the property quantifies over "
                       "finitely many built-in classes); the six switches are solver Bools",
                       "sys.modules and __import__ are replaced by a three-module model and an import log inside vinegar",
                       "custom classes with hostile __setattr__/properties are outside the claim"]
    run.obligation("O1_class_resolution", "vinegar.load resolves classes exactly as configured; no import / constructor otherwise", ob_load(run, interp))
    run.obligation("O2_roundtrip", "dump -> record -> load: same built-in class, normalised args, gated traceback/version", ob_roundtrip(run, interp))
    run.obligation("O3_hostile_payloads", "crafted payloads: raises or returns an exception; no import, no constructor", ob_hostile(run, interp))
    run.obligation("O4_history", "two loads in a row with independent switches: the second follows its own switches only (no process-wide memo of permissions)", ob_history(run, interp, 2 if run.tier == "thorough" else 1))
    run.note_encoded(interp)
    sys.exit(run.finish())


if __name__ == "__main__":
    main()
