"""Symbolic value domain of engine S: solver scalars with Python semantics.

Python `int` is a mathematical integer -> z3 Int (never a bit-vector);
`bool` -> z3 Bool; `float` used as a clock -> z3 Real; `str` -> z3 String.
Byte strings are ropes (engine/rope.py).  Everything else is a concrete
Python object.
"""
import operator

import z3

from .core import ctx, Unsupported


class Sym(object):
    """Base class of symbolic values."""
    __slots__ = ()
    __hash__ = None

    def __bool__(self):
        return ctx().branch(truth_term(self), "truth")


class SymBool(Sym):
    __slots__ = ("e",)
    pytype = bool

    def __init__(self, e):
        self.e = e

    def __repr__(self):
        return "SymBool(%s)" % (self.e,)

    def __or__(self, o):
        return binop("|", self, o)
    __ror__ = lambda self, o: binop("|", o, self)

    def __and__(self, o):
        return binop("&", self, o)
    __rand__ = lambda self, o: binop("&", o, self)

    def __eq__(self, o):
        return compare("==", self, o)

    def __ne__(self, o):
        return compare("!=", self, o)


class _Num(Sym):
    __slots__ = ("e",)

    def __init__(self, e):
        self.e = e

    def __repr__(self):
        return "%s(%s)" % (type(self).__name__, self.e)

    def __add__(self, o):
        return binop("+", self, o)

    def __radd__(self, o):
        return binop("+", o, self)

    def __sub__(self, o):
        return binop("-", self, o)

    def __rsub__(self, o):
        return binop("-", o, self)

    def __mul__(self, o):
        return binop("*", self, o)

    def __rmul__(self, o):
        return binop("*", o, self)

    def __neg__(self):
        return type(self)(-self.e)

    def __lt__(self, o):
        return compare("<", self, o)

    def __le__(self, o):
        return compare("<=", self, o)

    def __gt__(self, o):
        return compare(">", self, o)

    def __ge__(self, o):
        return compare(">=", self, o)

    def __eq__(self, o):
        return compare("==", self, o)

    def __ne__(self, o):
        return compare("!=", self, o)


class SymInt(_Num):
    __slots__ = ()
    pytype = int

    def __floordiv__(self, o):
        return binop("//", self, o)

    def __mod__(self, o):
        return binop("%", self, o)


class SymReal(_Num):
    """A Python float used as a clock reading / duration (real arithmetic; the
    harness states that floating-point rounding of clock values is outside the
    claim)."""
    __slots__ = ()
    pytype = float


class SymStr(Sym):
    __slots__ = ("e",)
    pytype = str

    def __init__(self, e):
        self.e = e

    def __repr__(self):
        return "SymStr(%s)" % (self.e,)

    def __add__(self, o):
        return binop("+", self, o)

    def __radd__(self, o):
        return binop("+", o, self)

    def __eq__(self, o):
        return compare("==", self, o)

    def __ne__(self, o):
        return compare("!=", self, o)

    def __len__(self):
        raise Unsupported("len() of a symbolic str from native code")


def is_sym(v):
    return isinstance(v, Sym)


def pytype_of(v):
    """The Python type the value stands for."""
    if isinstance(v, Sym):
        return v.pytype
    return type(v)


# ----------------------------------------------------------------------------
# lifting
# ----------------------------------------------------------------------------

def term(v):
    """z3 term of a value of scalar type (bool/int/float-as-real/str)."""
    if isinstance(v, (SymBool, SymInt, SymReal, SymStr)):
        return v.e
    if type(v) is bool:
        return z3.BoolVal(v)
    if type(v) is int:
        return z3.IntVal(v)
    if type(v) is float:
        if v != v or v in (float("inf"), float("-inf")):
            raise Unsupported("non-finite float in real arithmetic")
        return z3.RealVal(repr(v))
    if type(v) is str:
        return pystr_to_z3(v)
    raise Unsupported("cannot lift %r to a solver term" % (type(v),))


def num_term(v):
    """numeric term; bools are lifted to 0/1 as Python does."""
    t = pytype_of(v)
    if t is bool:
        e = term(v)
        return z3.If(e, z3.IntVal(1), z3.IntVal(0))
    if t in (int, float):
        return term(v)
    raise Unsupported("not a number: %r" % (t,))


def wrap(e):
    """Wrap a z3 term into a value; constants become Python constants."""
    e = z3.simplify(e)
    s = e.sort()
    if s == z3.BoolSort():
        if z3.is_true(e):
            return True
        if z3.is_false(e):
            return False
        return SymBool(e)
    if s == z3.IntSort():
        if z3.is_int_value(e):
            return e.as_long()
        return SymInt(e)
    if s == z3.RealSort():
        return SymReal(e)
    if s == z3.StringSort():
        if z3.is_string_value(e):
            return z3str_to_py(e)
        return SymStr(e)
    raise Unsupported("unknown sort %s" % s)


def truth_term(v):
    """z3 Bool for Python truthiness of a symbolic value."""
    if isinstance(v, SymBool):
        return v.e
    if isinstance(v, SymInt):
        return v.e != 0
    if isinstance(v, SymReal):
        return v.e != 0
    if isinstance(v, SymStr):
        return z3.Length(v.e) > 0
    tt = getattr(v, "truth_term", None)
    if tt is not None:
        return tt()
    raise Unsupported("truth of %r" % (type(v),))


def truth(v):
    """Python truthiness; forks on symbolic values."""
    if isinstance(v, Sym):
        return ctx().branch(truth_term(v), "truth")
    return bool(v)


_NUMERIC = (bool, int, float)


def _real_if_needed(a, b, ea, eb):
    if ea.sort() != eb.sort():
        if ea.sort() == z3.IntSort():
            ea = z3.ToReal(ea)
        if eb.sort() == z3.IntSort():
            eb = z3.ToReal(eb)
    return ea, eb


_PYOPS = {
    "+": operator.add, "-": operator.sub, "*": operator.mul, "//": operator.floordiv,
    "%": operator.mod, "|": operator.or_, "&": operator.and_, "^": operator.xor,
    "/": operator.truediv, "**": operator.pow, "<<": operator.lshift, ">>": operator.rshift,
    "@": operator.matmul,
}


def binop(op, a, b):
    """Python binary operator on values at least one of which is symbolic."""
    if not (isinstance(a, Sym) or isinstance(b, Sym)):
        return _PYOPS[op](a, b)
    # let non-scalar symbolic values (ropes...) handle their own operators
    for x, refl in ((a, False), (b, True)):
        h = getattr(x, "sym_binop", None)
        if h is not None:
            r = h(op, b if not refl else a, refl)
            if r is not NotImplemented:
                return r
    ta, tb = pytype_of(a), pytype_of(b)
    if ta is bool and tb is bool and op in "|&^":
        ea, eb = term(a), term(b)
        if op == "|":
            return wrap(z3.Or(ea, eb))
        if op == "&":
            return wrap(z3.And(ea, eb))
        return wrap(z3.Xor(ea, eb))
    if ta in _NUMERIC and tb in _NUMERIC:
        ea, eb = num_term(a), num_term(b)
        ea, eb = _real_if_needed(a, b, ea, eb)
        if op == "+":
            return wrap(ea + eb)
        if op == "-":
            return wrap(ea - eb)
        if op == "*":
            return wrap(ea * eb)
        if op in ("//", "%") and ta is not float and tb is not float:
            if ctx().branch(eb == 0, "divzero"):
                raise ZeroDivisionError("integer division or modulo by zero")
            # python floor division / modulo (sign of the divisor)
            q = z3.If(eb > 0, ea / eb, (-ea) / (-eb))
            if op == "//":
                return wrap(q)
            return wrap(ea - eb * q)
        raise Unsupported("operator %s on symbolic numbers" % op)
    if ta is str and tb is str and op == "+":
        return wrap(z3.Concat(term(a), term(b)))
    if op == "%" and ta is str:
        return str_format(a, b)
    if ta is str and tb in _NUMERIC or tb is str and ta in _NUMERIC:
        if op == "+":
            raise TypeError("unsupported operand type(s) for +")
    raise Unsupported("operator %s on %s, %s" % (op, ta.__name__, tb.__name__))


def str_format(fmt, args):
    """`fmt % args` with a symbolic operand.  Exact for the patterns that carry
    meaning in rpyc (a literal with a single %s of a str); otherwise the result
    is an opaque fresh text (message formatting is never the subject)."""
    if type(fmt) is str:
        if type(args) is not tuple:
            args = (args,)
        parts = fmt.split("%s")
        if len(parts) == len(args) + 1 and "%" not in "".join(parts) and all(pytype_of(x) is str for x in args):
            e = z3.StringVal(parts[0])
            for x, p in zip(args, parts[1:]):
                e = z3.Concat(e, term(x), z3.StringVal(p))
            return wrap(e)
    return SymStr(ctx().fresh_str("fmt"))


def compare(op, a, b):
    """Python comparison on values at least one of which is symbolic."""
    if not (isinstance(a, Sym) or isinstance(b, Sym)):
        return {"==": operator.eq, "!=": operator.ne, "<": operator.lt, "<=": operator.le,
                ">": operator.gt, ">=": operator.ge}[op](a, b)
    for x, refl in ((a, False), (b, True)):
        h = getattr(x, "sym_compare", None)
        if h is not None:
            r = h(op, b if not refl else a, refl)
            if r is not NotImplemented:
                return r
    ta, tb = pytype_of(a), pytype_of(b)
    if ta in _NUMERIC and tb in _NUMERIC:
        if ta is bool and tb is bool and op in ("==", "!="):
            ea, eb = term(a), term(b)
        else:
            ea, eb = num_term(a), num_term(b)
            ea, eb = _real_if_needed(a, b, ea, eb)
    elif ta is str and tb is str:
        ea, eb = term(a), term(b)
        if op not in ("==", "!="):
            if op == "<":
                return wrap(ea < eb)
            if op == "<=":
                return wrap(ea <= eb)
            if op == ">":
                return wrap(eb < ea)
            return wrap(eb <= ea)
    else:
        # different kinds of values
        if op == "==":
            return False
        if op == "!=":
            return True
        raise TypeError("'%s' not supported between instances of %r and %r" % (op, ta.__name__, tb.__name__))
    if op == "==":
        return wrap(ea == eb)
    if op == "!=":
        return wrap(ea != eb)
    if op == "<":
        return wrap(ea < eb)
    if op == "<=":
        return wrap(ea <= eb)
    if op == ">":
        return wrap(ea > eb)
    return wrap(ea >= eb)


def unaryop(op, a):
    if not isinstance(a, Sym):
        return {"not": operator.not_, "-": operator.neg, "+": operator.pos, "~": operator.invert}[op](a)
    if op == "not":
        return wrap(z3.Not(truth_term(a)))
    t = pytype_of(a)
    if op == "-" and t in (int, float):
        return wrap(-term(a))
    if op == "-" and t is bool:
        return wrap(-num_term(a))
    if op == "+" and t in (int, float):
        return a
    raise Unsupported("unary %s on %s" % (op, t.__name__))


def concretize(v, model):
    """Concrete Python value of `v` under `model`."""
    if isinstance(v, SymBool):
        return z3.is_true(model.eval(v.e, model_completion=True))
    if isinstance(v, SymInt):
        return model.eval(v.e, model_completion=True).as_long()
    if isinstance(v, SymReal):
        r = model.eval(v.e, model_completion=True)
        return float(r.numerator_as_long()) / float(r.denominator_as_long())
    if isinstance(v, SymStr):
        return z3str_to_py(model.eval(v.e, model_completion=True))
    c = getattr(v, "concretize", None)
    if c is not None:
        return c(model)
    if type(v) is tuple:
        return tuple(concretize(x, model) for x in v)
    if type(v) is list:
        return [concretize(x, model) for x in v]
    if type(v) is dict:
        return dict((concretize(k, model), concretize(x, model)) for k, x in v.items())
    if type(v) is frozenset:
        return frozenset(concretize(x, model) for x in v)
    return v


def z3str_to_py(e):
    """python str of a z3 string value, decoding z3's \\u{...} escapes."""
    s = e.as_string()
    out = []
    i = 0
    while i < len(s):
        if s.startswith("\\u{", i):
            j = s.index("}", i)
            out.append(chr(int(s[i + 3:j], 16)))
            i = j + 1
        else:
            out.append(s[i])
            i += 1
    return "".join(out)


def pystr_to_z3(s):
    """z3 string literal for an arbitrary python str (escapes non-ASCII)."""
    out = []
    for ch in s:
        o = ord(ch)
        if 32 <= o < 127 and ch != "\\":
            out.append(ch)
        else:
            out.append("\\u{%x}" % o)
    return z3.StringVal("".join(out))
