"""C06 -- attribute access by the peer follows the connection's policy, and only its own.

Encoded (re-read from /repo at every run): Connection._check_attr, _access_attr,
_handle_getattr/_setattr/_delattr/_callattr/_cmp/_ctxexit/_oldslicing,
Service._rpyc_setattr/_rpyc_delattr, helpers.restricted, Connection.__init__,
Service._connect, SlaveService.on_connect.
Oracle: specs/policy_spec.py (written from the property text only).
"""
import sys

import z3

from engine import core, values as V
from engine.core import ctx, explore
from engine.harness import Run, summarize_paths
from engine.interp import Interp
from engine.rope import Rope
from engine.values import SymBool, SymStr, SymInt
from specs import policy_spec as spec

FLAGS = ["allow_safe_attrs", "allow_exposed_attrs", "allow_public_attrs", "allow_all_attrs",
         "allow_getattr", "allow_setattr", "allow_delattr"]
PERMS = ["allow_getattr", "allow_setattr", "allow_delattr"]

# has(owner, name): uninterpreted attribute-existence predicate of the spy objects
HAS = z3.Function("has", z3.IntSort(), z3.StringSort(), z3.BoolSort())


class Token(object):
    """opaque value returned by a spy attribute"""
    def __init__(self, owner, name, ident=None):
        self.owner = owner
        self.name = name
        self.ident = owner.ident if ident is None else ident
        self.calls = []

    def __call__(self, *a, **k):
        ctx().log.append(("call", self.ident, self.name, a, k))
        return ("result-of", self.name)


class SpyMeta(type):
    """class-level attribute access of spies is abstract too (for _handle_cmp,
    which looks the operator up on type(obj))"""
    ident = 1

    def sym_getattr_dyn(cls, interp, name, *default):
        if type(name) is str and (name.startswith("_rpyc_") or name.startswith("sym_") or name in ("ident", "__mro__", "__dict__")):
            try:
                return type.__getattribute__(cls, name)
            except AttributeError:
                if default:
                    return default[0]
                raise
        return _spy_get(cls, 1, name, default)


def _spy_get(obj, ident, name, default):
    c = ctx()
    if V.pytype_of(name) is not str:
        raise TypeError("attribute name must be string")
    if c.branch(HAS(z3.IntVal(ident), V.term(name)), "has-attr"):
        c.log.append(("getattr", ident, name))
        return Token(obj, name, ident)
    if default:
        return default[0]
    raise AttributeError(name)


class Spy(object, metaclass=SpyMeta):
    """an object whose attributes are abstract: existence is the uninterpreted
    predicate has(ident, name); every touch is logged"""
    ident = 0

    def sym_getattr_dyn(self, interp, name, *default):
        return _spy_get(self, 0, name, default)

    def sym_setattr_dyn(self, interp, name, value):
        ctx().log.append(("setattr", 0, name, value))

    def sym_delattr_dyn(self, interp, name):
        c = ctx()
        if c.branch(HAS(z3.IntVal(0), V.term(name)), "has-attr"):
            c.log.append(("delattr", 0, name))
            return
        raise AttributeError(name)


class HookSpy(Spy):
    """a spy whose type defines its own _rpyc_* hooks: they decide instead of
    the configuration"""

    def _rpyc_getattr(self, name):
        ctx().log.append(("hook_get", name))
        return Token(self, name)

    def _rpyc_setattr(self, name, value):
        ctx().log.append(("hook_set", name, value))

    def _rpyc_delattr(self, name):
        ctx().log.append(("hook_del", name))


def sym_config(tag=""):
    from rpyc.core.protocol import DEFAULT_CONFIG
    cfg = dict(DEFAULT_CONFIG)
    for k in FLAGS:
        cfg[k] = SymBool(z3.Bool(tag + k))
    cfg["exposed_prefix"] = SymStr(z3.String(tag + "prefix"))
    return cfg


def cfg_terms(cfg):
    return dict((k, V.term(cfg[k])) for k in FLAGS + ["exposed_prefix"])


def make_conn(cfg):
    from rpyc.core.protocol import Connection
    conn = object.__new__(Connection)
    conn._closed = True
    conn._config = cfg
    return conn


def concrete_obj(model, names, ident=0):
    """a real object that has exactly the attributes the model says"""
    class Obj(object):
        pass
    o = Obj()
    for n in names:
        if z3.is_true(model.eval(HAS(z3.IntVal(ident), V.pystr_to_z3(n)), model_completion=True)):
            try:
                setattr(o, n, ("attr", n))
            except (AttributeError, TypeError):
                pass
    return o


# ---------------------------------------------------------------------------
def ob_check_attr(run, interp):
    from rpyc.core.protocol import Connection, DEFAULT_CONFIG

    def ob(o):
        o.symbolic = ["7 attribute switches: Bool", "exposed_prefix: String (unbounded)", "name: String (unbounded)",
                      "has(obj, .): uninterpreted predicate", "operation kind in {get,set,del}"]
        o.bounds = {"strings": "unbounded", "loops": "none in the encoded function"}
        o.stubs = ["hasattr(obj, n) := has(obj, n) (uninterpreted); safe_attrs = the real default set (concrete)"]
        checked = [0]
        validated = [0]
        safe = DEFAULT_CONFIG["safe_attrs"]

        def harness(c):
            cfg = sym_config()
            conn = make_conn(cfg)
            name = SymStr(z3.String("name"))
            perm = PERMS[c.choose(3, "perm")]
            c.notes["perm"] = perm
            c.notes["cfg"] = cfg
            return interp.call(Connection._check_attr, (conn, Spy(), name, perm))

        res, ex = explore(harness, deadline=run.deadline)
        o.paths = summarize_paths(res)
        if ex.incomplete:
            o.verdict = "inconclusive"
            o.detail = ex.incomplete
            return
        name_t = z3.String("name")
        for r in res:
            c = r.ctx
            if r.outcome == "abort":
                continue
            if r.outcome == "bound":
                raise core.BoundExceeded(str(r.exc))
            cfgt = cfg_terms(c.notes["cfg"])
            perm = c.notes["perm"]
            has = lambda t: HAS(z3.IntVal(0), t)
            allowed, twin, twin_name = spec.decision(cfgt, perm, name_t, has, safe)
            if r.outcome == "return":
                got = V.term(r.value)
                ok = spec.result_ok(allowed, twin, twin_name, name_t, got, has(name_t))
                kind = "returned a name the policy does not permit"
            elif isinstance(r.exc, AttributeError):
                ok = spec.refusal_ok(allowed, twin)
                kind = "refused although the policy permits the access"
            else:
                ok = z3.BoolVal(False)
                kind = "raised %s" % type(r.exc).__name__
            holds, m = core.with_ctx(c, c.must_hold, ok)
            checked[0] += 1
            if len(o.samples) < 4:
                o.samples.append({"path": r.decisions, "outcome": r.outcome if r.outcome != "raise" else type(r.exc).__name__,
                                  "result": str(r.value)[:80], "path_condition_size": len(c.pc)})
            if not holds:
                cex = concretize_check_attr(m, cfgt, perm, name_t)
                sig = "check_attr:%s" % kind.split()[0]
                run.replay(o, sig + ":" + _cfg_sig(cex), "_check_attr %s: %r" % (kind, cex), replay_check_attr(cex))
                return
            # translator validation: replay this very path concretely on CPython
            m = core.with_ctx(c, c.check_model)
            if m is not None:
                cex = concretize_check_attr(m, cfgt, perm, name_t)
                exp = ("raise", type(r.exc).__name__) if r.outcome == "raise" else ("return", V.concretize(r.value, m))
                got = native_check_attr(cex)
                if got != exp:
                    raise core.HarnessError("translator validation: path %s predicts %r, CPython gives %r on %r" % (r.decisions, exp, got, cex))
                validated[0] += 1
        o.validated = validated[0]
        o.detail = "%d path verdicts unsat(neg); %d paths replayed concretely on CPython and agree" % (checked[0], validated[0])
        # reachability twin: some path returns the twin, some returns the plain name, some refuses
        kinds = set()
        for r in res:
            if r.outcome == "return":
                kinds.add("twin" if "Concat" in str(V.term(r.value)) else "plain")
            elif r.outcome == "raise":
                kinds.add("refuse")
        o.reach = sorted(kinds)
        if kinds != {"twin", "plain", "refuse"}:
            raise core.HarnessError("reachability twin: outcome classes reached = %s" % sorted(kinds))
    return ob


def concretize_check_attr(m, cfgt, perm, name_t):
    cex = dict((k, V.concretize(V.wrap(t) if not isinstance(t, (bool, str)) else t, m)) for k, t in cfgt.items())
    cex["perm"] = perm
    cex["name"] = V.z3str_to_py(m.eval(name_t, model_completion=True))
    prefix = cex["exposed_prefix"]
    names = [cex["name"], prefix + cex["name"]]
    cex["attrs"] = [n for n in names if z3.is_true(m.eval(HAS(z3.IntVal(0), V.pystr_to_z3(n)), model_completion=True))]
    return cex


def _cfg_sig(cex):
    return "".join("1" if cex[k] else "0" for k in FLAGS)


def native_check_attr(cex):
    from rpyc.core.protocol import Connection, DEFAULT_CONFIG
    cfg = dict(DEFAULT_CONFIG)
    for k in FLAGS + ["exposed_prefix"]:
        cfg[k] = cex[k]
    conn = make_conn(cfg)

    class Obj(object):
        pass
    o = Obj()
    for n in cex["attrs"]:
        setattr(o, n, 1)
    try:
        return ("return", Connection._check_attr(conn, o, cex["name"], cex["perm"]))
    except Exception as e:
        return ("raise", type(e).__name__)


REPLAY_HEAD = '''# replay of a counterexample found by /verif (property C06) on the real rpyc
import sys
sys.path.insert(0, __import__("os").environ.get("VERIF_REPO", "/repo"))
from rpyc.core.protocol import Connection, DEFAULT_CONFIG
SAFE = DEFAULT_CONFIG["safe_attrs"]
def allowed(cfg, name):
    return bool(cfg["allow_all_attrs"] or (cfg["allow_exposed_attrs"] and name.startswith(cfg["exposed_prefix"]))
                or (cfg["allow_safe_attrs"] and name in SAFE) or (cfg["allow_public_attrs"] and not name.startswith("_")))
def twin(cfg, obj, name):
    p = cfg["exposed_prefix"]
    return bool(cfg["allow_exposed_attrs"] and p and hasattr(obj, p + name))
'''


def replay_check_attr(cex):
    return REPLAY_HEAD + '''
cex = %r
cfg = dict(DEFAULT_CONFIG)
for k in %r:
    cfg[k] = cex[k]
conn = object.__new__(Connection); conn._closed = True; conn._config = cfg
class Obj(object): pass
o = Obj()
for n in cex["attrs"]:
    setattr(o, n, 1)
name, perm = cex["name"], cex["perm"]
ok_names = set()
if cfg[perm]:
    if allowed(cfg, name): ok_names.add(name)
    # the twin stands in only for a name that cannot be accessed as such
    if twin(cfg, o, name) and not (allowed(cfg, name) and hasattr(o, name)): ok_names.add(cfg["exposed_prefix"] + name)
try:
    got = Connection._check_attr(conn, o, name, perm)
    bad = got not in ok_names
    print("returned", repr(got), "permitted", ok_names)
except AttributeError:
    bad = bool(ok_names)
    print("refused; permitted", ok_names)
if bad:
    print("REPRODUCED")
    sys.exit(1)
''' % (cex, FLAGS + ["exposed_prefix"])


# ---------------------------------------------------------------------------
def _touches(log):
    return [e for e in log if e[0] in ("getattr", "setattr", "delattr", "hook_get", "hook_set", "hook_del")]


def ob_access_attr(run, interp):
    from rpyc.core.protocol import Connection, DEFAULT_CONFIG
    safe = DEFAULT_CONFIG["safe_attrs"]
    OPS = [("_rpyc_getattr", "allow_getattr", getattr, ()),
           ("_rpyc_setattr", "allow_setattr", setattr, ("VALUE",)),
           ("_rpyc_delattr", "allow_delattr", delattr, ())]

    def ob(o):
        o.symbolic = ["config as in check_attr", "name kind in {text, bytes (utf-8 image of a text), int, None, tuple}",
                      "object has own hooks?", "operation kind"]
        o.stubs = ["spy objects: getattr/setattr/delattr are effect-logged; existence = has(obj,n)",
                   "str(bytes,'utf8') := inverse of the utf-8 image (contract of C04)"]
        n_checked = [0]

        def harness(c):
            cfg = sym_config()
            conn = make_conn(cfg)
            op = OPS[c.choose(3, "op")]
            hooked = c.choose(2, "hooks") == 1
            kind = c.choose(5, "name-kind")
            text = z3.String("name")
            if kind == 0:
                name = SymStr(text)
            elif kind == 1:
                from engine.models import utf8_blob
                c.assume(z3.InRe(text, __import__("engine.models", fromlist=["x"]).no_surrogate_re()))
                name = utf8_blob(text)
            elif kind == 2:
                name = SymInt(z3.Int("name_int"))
            elif kind == 3:
                name = None
            else:
                name = (SymStr(text),)
            obj = HookSpy() if hooked else Spy()
            c.notes.update(op=op, hooked=hooked, kind=kind, cfg=cfg)
            return interp.call(Connection._access_attr, (conn, obj, name, op[3], op[0], op[1], op[2]))

        res, ex = explore(harness, deadline=run.deadline)
        o.paths = summarize_paths(res)
        if ex.incomplete:
            o.verdict = "inconclusive"
            o.detail = ex.incomplete
            return
        name_t = z3.String("name")
        for r in res:
            c = r.ctx
            if r.outcome == "abort":
                continue
            if r.outcome == "bound":
                raise core.BoundExceeded(str(r.exc))
            op, hooked, kind = c.notes["op"], c.notes["hooked"], c.notes["kind"]
            touches = _touches(c.log)
            n_checked[0] += 1
            what = None
            if kind >= 2:
                if not (r.outcome == "raise" and isinstance(r.exc, TypeError)) or touches:
                    what = "non-text name (kind %d): outcome %s touches %r" % (kind, r.outcome, touches)
                cond = None
            elif hooked:
                exp = {"_rpyc_getattr": "hook_get", "_rpyc_setattr": "hook_set", "_rpyc_delattr": "hook_del"}[op[0]]
                if len(touches) != 1 or touches[0][0] != exp:
                    what = "object with own hooks: effect log %r" % (touches,)
                    cond = None
                else:
                    cond = V.term(touches[0][1]) == name_t
            else:
                cfgt = cfg_terms(c.notes["cfg"])
                has = lambda t: HAS(z3.IntVal(0), t)
                allowed, twin, twin_name = spec.decision(cfgt, op[1], name_t, has, safe)
                acc = {"_rpyc_getattr": "getattr", "_rpyc_setattr": "setattr", "_rpyc_delattr": "delattr"}[op[0]]
                # has() lookups made by _check_attr itself are not accesses: only the accessor's touch counts
                acts = [t for t in touches if t[0] == acc]
                probes = [t for t in touches if t[0] != acc]
                if acc == "getattr":
                    # hasattr probes are logged as getattr too; the final one is the access
                    acts = touches[-1:] if (r.outcome == "return" and touches) else []
                if r.outcome == "return":
                    if len(acts) != 1:
                        what = "default accessor: expected one %s, log %r" % (acc, touches)
                        cond = None
                    else:
                        cond = spec.result_ok(allowed, twin, twin_name, name_t, V.term(acts[0][2]), has(name_t))
                elif isinstance(r.exc, AttributeError):
                    # refused by the policy, or the permitted target does not exist on the object
                    missing = z3.Or(z3.Not(has(name_t)), z3.Not(has(twin_name)))
                    cond = z3.Or(spec.refusal_ok(allowed, twin), missing)
                    if acc in ("setattr",) and acts:
                        what = "setattr performed and then refused: %r" % (touches,)
                else:
                    what = "unexpected %s" % type(r.exc).__name__
                    cond = None
            if what is None and cond is not None:
                holds, m = core.with_ctx(c, c.must_hold, cond)
                if not holds:
                    what = "access outside the policy on path %s (op=%s hooked=%s kind=%d): model %s" % (
                        r.decisions, op[0], hooked, kind, _short_model(m, c))
            if what is not None:
                m = core.with_ctx(c, c.check_model)
                cex = concretize_check_attr(m, cfg_terms(c.notes["cfg"]), op[1], name_t)
                cex.update(op=op[0], hooked=hooked, kind=kind)
                run.replay(o, "access_attr:%s:%s:%d" % (op[0], hooked, kind), what, replay_access_attr(cex))
                return
            if len(o.samples) < 4:
                o.samples.append({"op": op[0], "hooks": hooked, "name_kind": kind, "outcome": r.outcome,
                                  "touches": [str(t)[:60] for t in touches]})
        o.detail = "%d paths checked against the effect-log oracle" % n_checked[0]
        o.reach = "all 3 ops x hooks x 5 name kinds reached: %s" % (len(set((r.ctx.notes.get("op", ("",))[0], r.ctx.notes.get("hooked"), r.ctx.notes.get("kind")) for r in res)) == 30)
        if "True" not in o.reach:
            raise core.HarnessError("reachability twin failed: " + o.reach)
    return ob


def _short_model(m, c):
    try:
        return str(m)[:200]
    except Exception:
        return "?"


def replay_access_attr(cex):
    return REPLAY_HEAD + '''
cex = %r
cfg = dict(DEFAULT_CONFIG)
for k in %r:
    cfg[k] = cex[k]
conn = object.__new__(Connection); conn._closed = True; conn._config = cfg
log = []
class Obj(object):
    def __getattribute__(self, n):
        if n.startswith("__") and n.endswith("__") and n not in ATTRS: return object.__getattribute__(self, n)
        if n in ATTRS:
            log.append(("getattr", n)); return 1
        raise AttributeError(n)
    def __setattr__(self, n, v): log.append(("setattr", n))
    def __delattr__(self, n): log.append(("delattr", n))
class Hooked(Obj):
    def _rpyc_getattr(self, n): log.append(("hook", n))
    def _rpyc_setattr(self, n, v): log.append(("hook", n))
    def _rpyc_delattr(self, n): log.append(("hook", n))
ATTRS = set(cex["attrs"])
o = Hooked() if cex["hooked"] else Obj()
kind = cex["kind"]
name = cex["name"]
wire = {0: name, 1: name.encode("utf8", "surrogatepass"), 2: 5, 3: None, 4: (name,)}[kind]
op = cex["op"]; perm = cex["perm"]
default = {"_rpyc_getattr": getattr, "_rpyc_setattr": setattr, "_rpyc_delattr": delattr}[op]
args = ("VALUE",) if op == "_rpyc_setattr" else ()
ok_names = set()
if cfg[perm]:
    if allowed(cfg, name): ok_names.add(name)
    if twin(cfg, o, name) and not (allowed(cfg, name) and name in ATTRS): ok_names.add(cfg["exposed_prefix"] + name)
del log[:]
try:
    Connection._access_attr(conn, o, wire, args, op, perm, default)
    exc = None
except Exception as e:
    exc = e
acc = {"_rpyc_getattr": "getattr", "_rpyc_setattr": "setattr", "_rpyc_delattr": "delattr"}[op]
bad = False
if kind >= 2:
    bad = not isinstance(exc, TypeError) or bool(log)
elif cex["hooked"]:
    bad = log != [("hook", name)]
else:
    final = [t for t in log if t[0] == acc]
    if acc == "getattr":
        final = log[-1:] if exc is None else []
    if exc is None:
        bad = len(final) != 1 or final[0][1] not in ok_names
    else:
        bad = (acc != "getattr" and bool(final)) and isinstance(exc, AttributeError) and False
        if isinstance(exc, AttributeError) and ok_names and all(n in ATTRS for n in ok_names):
            bad = True
        if not isinstance(exc, AttributeError):
            bad = True
print("log", log, "exc", repr(exc), "permitted", ok_names)
if bad:
    print("REPRODUCED")
    sys.exit(1)
''' % (cex, FLAGS + ["exposed_prefix"])


# ---------------------------------------------------------------------------
def ob_handlers(run, interp):
    """every handler that takes a peer-chosen name routes it through the policy
    with the right operation kind"""
    from rpyc.core.protocol import Connection, DEFAULT_CONFIG
    safe = DEFAULT_CONFIG["safe_attrs"]
    HANDLERS = ["_handle_getattr", "_handle_setattr", "_handle_delattr", "_handle_callattr",
                "_handle_cmp", "_handle_ctxexit", "_handle_oldslicing"]

    def ob(o):
        o.symbolic = ["config (7 switches + prefix)", "peer-chosen names: String", "has(obj,.) uninterpreted", "handler in %s" % HANDLERS]
        o.stubs = ["spy objects (effect-logged attribute access)", "Token: opaque attribute value; calling it is logged"]
        n = [0]

        def harness(c):
            cfg = sym_config()
            conn = make_conn(cfg)
            h = HANDLERS[c.choose(len(HANDLERS), "handler")]
            name = SymStr(z3.String("name"))
            name2 = SymStr(z3.String("name2"))
            obj = Spy()
            c.notes.update(h=h, cfg=cfg)
            f = getattr(Connection, h)
            if h == "_handle_getattr" or h == "_handle_delattr":
                return interp.call(f, (conn, obj, name))
            if h == "_handle_setattr":
                return interp.call(f, (conn, obj, name, "VALUE"))
            if h == "_handle_callattr":
                return interp.call(f, (conn, obj, name, (1,), (("k", 2),)))
            if h == "_handle_cmp":
                return interp.call(f, (conn, obj, "OTHER", name))
            if h == "_handle_ctxexit":
                return interp.call(f, (conn, obj, None))
            if h == "_handle_oldslicing":
                return interp.call(f, (conn, obj, name, name2, 1, 2, ()))

        res, ex = explore(harness, deadline=run.deadline)
        o.paths = summarize_paths(res)
        if ex.incomplete:
            o.verdict = "inconclusive"
            o.detail = ex.incomplete
            return
        name_t, name2_t = z3.String("name"), z3.String("name2")
        for r in res:
            c = r.ctx
            if r.outcome in ("abort",):
                continue
            if r.outcome == "bound":
                raise core.BoundExceeded(str(r.exc))
            h = c.notes["h"]
            cfgt = cfg_terms(c.notes["cfg"])
            perm = {"_handle_setattr": "allow_setattr", "_handle_delattr": "allow_delattr"}.get(h, "allow_getattr")
            owner = 1 if h == "_handle_cmp" else 0
            has = lambda t, owner=owner: HAS(z3.IntVal(owner), t)
            requested = {"_handle_ctxexit": [z3.StringVal("__exit__")],
                         "_handle_oldslicing": [name_t, name2_t]}.get(h, [name_t])
            acc = {"_handle_setattr": "setattr", "_handle_delattr": "delattr"}.get(h, "getattr")
            # every attribute *value* obtained (Token) or write/delete performed must be permitted for
            # one of the requested names; hasattr probes return no value and are not accesses, but they
            # are logged as getattr: a getattr entry counts as an access if its Token is used (called)
            # or it is the handler's result.  Conservative: require every getattr/setattr/delattr entry
            # to be either a permitted target or a pure probe of {name, prefix+name}.
            conds = []
            for e in c.log:
                if e[0] not in ("getattr", "setattr", "delattr"):
                    continue
                if e[1] != owner:
                    conds.append(z3.BoolVal(False))
                    continue
                t = V.term(e[2])
                alts = []
                for req in requested:
                    allowed, twin, twin_name = spec.decision(cfgt, perm, req, has, safe)
                    if e[0] == acc:
                        alts.append(spec.result_ok(allowed, twin, twin_name, req, t, has(req)))
                    if e[0] == "getattr":
                        # existence probes made by the policy check itself
                        alts.append(z3.Or(t == req, t == twin_name))
                conds.append(z3.Or(*alts) if alts else z3.BoolVal(False))
            # calls: only Tokens that were obtained through a permitted access may be called
            for e in c.log:
                if e[0] == "call":
                    t = V.term(e[2])
                    alts = []
                    for req in requested:
                        allowed, twin, twin_name = spec.decision(cfgt, "allow_getattr", req, has, safe)
                        alts.append(spec.result_ok(allowed, twin, twin_name, req, t, has(req)))
                    conds.append(z3.Or(*alts))
            n[0] += 1
            holds, m = core.with_ctx(c, c.must_hold, z3.And(*conds) if conds else z3.BoolVal(True))
            if len(o.samples) < 5 and c.log:
                o.samples.append({"handler": h, "outcome": r.outcome, "log": [str(x)[:70] for x in c.log][:4]})
            if not holds:
                cex = concretize_check_attr(m, cfgt, perm, name_t)
                cex["name2"] = V.z3str_to_py(m.eval(name2_t, model_completion=True))
                cex["handler"] = h
                names = [cex["name"], cex["exposed_prefix"] + cex["name"], cex["name2"], cex["exposed_prefix"] + cex["name2"],
                         "__exit__", cex["exposed_prefix"] + "__exit__"]
                cex["attrs"] = [x for x in names if z3.is_true(m.eval(HAS(z3.IntVal(owner), V.pystr_to_z3(x)), model_completion=True))]
                run.replay(o, "handler:%s" % h, "%s touches an attribute the policy denies: %r" % (h, cex), replay_handler(cex))
                return
        o.detail = "%d handler paths checked" % n[0]
        reached = set(r.ctx.notes.get("h") for r in res if r.outcome == "return")
        o.reach = sorted(reached)
        if reached != set(HANDLERS):
            raise core.HarnessError("reachability twin: handlers returning normally = %s" % sorted(reached))
    return ob



def ob_handlers_hooked(run, interp):
    """objects that define their own attribute hooks (restricted views are such objects): the hooks decide instead of the
    configuration, for every handler that reaches an attribute by a peer-chosen name -- whatever the configuration says"""
    from rpyc.core.protocol import Connection
    HANDLERS = ["_handle_getattr", "_handle_setattr", "_handle_delattr", "_handle_callattr"]

    def ob(o):
        o.symbolic = ["config (7 switches + prefix)", "peer-chosen name: String", "handler in %s" % HANDLERS]
        o.stubs = ["HookSpy: an object whose type defines _rpyc_getattr/_rpyc_setattr/_rpyc_delattr (each logs its call)"]
        n = [0]

        def harness(c):
            cfg = sym_config()
            conn = make_conn(cfg)
            h = HANDLERS[c.choose(len(HANDLERS), "handler")]
            name = SymStr(z3.String("name"))
            obj = HookSpy()
            c.notes.update(h=h, cfg=cfg)
            f = getattr(Connection, h)
            if h in ("_handle_getattr", "_handle_delattr"):
                return interp.call(f, (conn, obj, name))
            if h == "_handle_setattr":
                return interp.call(f, (conn, obj, name, "VALUE"))
            return interp.call(f, (conn, obj, name, (1,), (("k", 2),)))

        res, ex = explore(harness, deadline=run.deadline)
        o.paths = summarize_paths(res)
        if ex.incomplete:
            o.verdict = "inconclusive"
            o.detail = ex.incomplete
            return
        name_t = z3.String("name")
        for r in res:
            c = r.ctx
            if r.outcome == "abort":
                continue
            if r.outcome == "bound":
                raise core.BoundExceeded(str(r.exc))
            h = c.notes["h"]
            want = {"_handle_getattr": "hook_get", "_handle_callattr": "hook_get", "_handle_setattr": "hook_set", "_handle_delattr": "hook_del"}[h]
            hooks = [e for e in c.log if e[0].startswith("hook_")]
            direct = [e for e in c.log if e[0] in ("getattr", "setattr", "delattr")]
            bad = None
            conds = []
            if r.outcome != "return":
                bad = "%s on an object with its own hooks raised %s (the configuration decided instead of the hook)" % (h, type(r.exc).__name__)
            elif len(hooks) != 1 or hooks[0][0] != want or direct:
                bad = "%s on an object with its own hooks: hook calls %r, direct accesses %r" % (h, [e[0] for e in hooks], [e[0] for e in direct])
            else:
                conds.append(V.term(hooks[0][1]) == name_t)
            n[0] += 1
            model = None
            if bad is None and conds:
                holds, model = core.with_ctx(c, c.must_hold, z3.And(*conds))
                if not holds:
                    bad = "%s passed another name to the object's hook" % h
            if bad and len(o.violations) < 3:
                m = model or core.with_ctx(c, c.check_model)
                if m is None:
                    continue
                cex = dict((k, z3.is_true(m.eval(v.e, model_completion=True))) for k, v in c.notes["cfg"].items() if isinstance(v, V.SymBool))
                cex["exposed_prefix"] = V.z3str_to_py(m.eval(z3.String("prefix"), model_completion=True))
                cex["name"] = V.z3str_to_py(m.eval(name_t, model_completion=True)) or "x"
                cex["handler"] = h
                sig = "hooked:%s" % h
                if any(v["signature"] == sig for v in o.violations):
                    continue
                run.replay(o, sig, "%s (config %s)" % (bad, dict((k, v) for k, v in cex.items() if k.startswith("allow"))), REPLAY_HEAD + """
cex = %r
cfg = dict(DEFAULT_CONFIG)
for k, v in cex.items():
    if k in cfg: cfg[k] = v
conn = object.__new__(Connection); conn._closed = True; conn._config = cfg
log = []
class Hooked(object):
    def _rpyc_getattr(self, n):
        log.append(("hook_get", n)); return (lambda *a, **k: "called")
    def _rpyc_setattr(self, n, v): log.append(("hook_set", n))
    def _rpyc_delattr(self, n): log.append(("hook_del", n))
o = Hooked(); h = cex["handler"]; name = cex["name"]
want = {"_handle_getattr": "hook_get", "_handle_callattr": "hook_get", "_handle_setattr": "hook_set", "_handle_delattr": "hook_del"}[h]
f = getattr(Connection, h)
try:
    if h in ("_handle_getattr", "_handle_delattr"): f(conn, o, name)
    elif h == "_handle_setattr": f(conn, o, name, "VALUE")
    else: f(conn, o, name, (1,), (("k", 2),))
    exc = None
except Exception as e:
    exc = e
print("log", log, "exc", repr(exc))
if exc is not None or log != [(want, name)]:
    print("REPRODUCED"); sys.exit(1)
""" % (cex,))
        if n[0] < 4:
            raise core.HarnessError("reachability twin: only %d hooked paths" % n[0])
    return ob


def replay_handler(cex):
    return REPLAY_HEAD + '''
cex = %r
cfg = dict(DEFAULT_CONFIG)
for k in %r:
    cfg[k] = cex[k]
conn = object.__new__(Connection); conn._closed = True; conn._config = cfg
log = []
ATTRS = set(cex["attrs"])
class Val(object):
    def __init__(self, n): self.n = n
    def __call__(self, *a, **k):
        log.append(("call", self.n)); return 0
class Meta(type):
    def __getattribute__(cls, n):
        if cex["handler"] == "_handle_cmp" and not n.startswith("_rpyc"):
            if n in ATTRS:
                log.append(("getattr", n)); return Val(n)
            if n.startswith("__") and n.endswith("__") and n in ("__mro__", "__dict__", "__class__", "__name__"):
                return type.__getattribute__(cls, n)
            raise AttributeError(n)
        return type.__getattribute__(cls, n)
class Obj(object, metaclass=Meta):
    def __getattribute__(self, n):
        if n in ("__class__", "__dict__"): return object.__getattribute__(self, n)
        if n in ATTRS:
            log.append(("getattr", n)); return Val(n)
        raise AttributeError(n)
    def __setattr__(self, n, v): log.append(("setattr", n))
    def __delattr__(self, n): log.append(("delattr", n))
o = Obj()
h = cex["handler"]; name = cex["name"]; name2 = cex.get("name2", "")
f = getattr(Connection, h)
perm = {"_handle_setattr": "allow_setattr", "_handle_delattr": "allow_delattr"}.get(h, "allow_getattr")
target = type(o) if h == "_handle_cmp" else o
req = {"_handle_ctxexit": ["__exit__"], "_handle_oldslicing": [name, name2]}.get(h, [name])
ok = set(); probes = set()
for r in req:
    probes.update([r, cfg["exposed_prefix"] + r])
    if cfg[perm]:
        if allowed(cfg, r): ok.add(r)
        if twin(cfg, target, r) and not (allowed(cfg, r) and r in ATTRS): ok.add(cfg["exposed_prefix"] + r)
del log[:]
try:
    if h in ("_handle_getattr", "_handle_delattr"): f(conn, o, name)
    elif h == "_handle_setattr": f(conn, o, name, "VALUE")
    elif h == "_handle_callattr": f(conn, o, name, (1,), (("k", 2),))
    elif h == "_handle_cmp": f(conn, o, "OTHER", name)
    elif h == "_handle_ctxexit": f(conn, o, None)
    else: f(conn, o, name, name2, 1, 2, ())
    exc = None
except Exception as e:
    exc = e
acc = {"_handle_setattr": "setattr", "_handle_delattr": "delattr"}.get(h, "getattr")
bad = False
for e in log:
    if e[0] == "call" and e[1] not in ok: bad = True
    if e[0] in ("setattr", "delattr") and (e[0] != acc or e[1] not in ok): bad = True
    if e[0] == "getattr" and e[1] not in ok and e[1] not in probes: bad = True
print("log", log, "exc", repr(exc), "permitted", ok)
if bad:
    print("REPRODUCED")
    sys.exit(1)
''' % (cex, FLAGS + ["exposed_prefix"])


# ---------------------------------------------------------------------------
def ob_service_hooks(run, interp):
    from rpyc.core.service import Service, VoidService
    from rpyc.core.protocol import Connection

    def ob(o):
        o.symbolic = ["name: String (unbounded)", "config (7 switches + prefix)"]

        def harness(c):
            cfg = sym_config()
            conn = make_conn(cfg)
            svc = VoidService()
            name = SymStr(z3.String("name"))
            which = c.choose(2, "op")
            c.notes["which"] = which
            if which == 0:
                return interp.call(Connection._handle_setattr, (conn, svc, name, "V"))
            return interp.call(Connection._handle_delattr, (conn, svc, name))

        res, ex = explore(harness, deadline=run.deadline)
        o.paths = summarize_paths(res)
        for r in res:
            if r.outcome == "abort":
                continue
            if not (r.outcome == "raise" and isinstance(r.exc, AttributeError)):
                m = core.with_ctx(r.ctx, r.ctx.check_model)
                nm = V.z3str_to_py(m.eval(z3.String("name"), model_completion=True))
                run.replay(o, "service_setdel:%d" % r.ctx.notes["which"],
                           "set/del on the service object itself is not refused for name %r" % nm,
                           '''import sys
sys.path.insert(0, __import__("os").environ.get("VERIF_REPO", "/repo"))
from rpyc.core.protocol import Connection, DEFAULT_CONFIG
from rpyc.core.service import VoidService
cfg = dict(DEFAULT_CONFIG, allow_setattr=True, allow_delattr=True, allow_all_attrs=True)
conn = object.__new__(Connection); conn._closed = True; conn._config = cfg
class S(VoidService):
    __slots__ = ("__dict__",)
s = S(); s.x = 1
bad = False
for f, a in ((Connection._handle_setattr, (%r, "V")), (Connection._handle_delattr, (%r,))):
    try:
        f(conn, s, *a); bad = True
    except AttributeError:
        pass
if bad:
    print("REPRODUCED"); sys.exit(1)
''' % (nm, nm))
                return
        o.samples.append({"paths": len(res), "all": "AttributeError"})
        o.reach = "both operations reached: %s" % (set(r.ctx.notes.get("which") for r in res) == {0, 1})
    return ob


def ob_restricted(run, interp):
    from rpyc.utils.helpers import restricted
    from rpyc.core.protocol import Connection
    LISTS = [({"read", "close"}, None), ({"read", "close"}, ()), ({"read"}, {"mode"}), (set(), None)]

    def ob(o):
        o.symbolic = ["name: String (unbounded)", "config (7 switches + prefix): must be irrelevant",
                      "attrs/wattrs from %d list shapes incl. wattrs=None and wattrs=()" % len(LISTS), "op in {get,set}"]
        o.stubs = ["inner object is a spy (effect-logged); has(obj,n) uninterpreted"]

        def harness(c):
            cfg = sym_config()
            conn = make_conn(cfg)
            attrs, wattrs = LISTS[c.choose(len(LISTS), "lists")]
            inner = Spy()
            view = interp.call(restricted, (inner, attrs) if wattrs is None else (inner, attrs, wattrs))
            name = SymStr(z3.String("name"))
            which = c.choose(2, "op")
            c.notes.update(which=which, attrs=attrs, wattrs=attrs if wattrs is None else wattrs)
            if which == 0:
                return interp.call(Connection._handle_getattr, (conn, view, name))
            return interp.call(Connection._handle_setattr, (conn, view, name, "V"))

        res, ex = explore(harness, deadline=run.deadline)
        o.paths = summarize_paths(res)
        name_t = z3.String("name")
        for r in res:
            c = r.ctx
            if r.outcome == "abort":
                continue
            which = c.notes["which"]
            listed = c.notes["attrs"] if which == 0 else c.notes["wattrs"]
            in_list = z3.Or(*[name_t == V.pystr_to_z3(a) for a in listed]) if listed else z3.BoolVal(False)
            touches = [e for e in c.log if e[0] in ("getattr", "setattr", "delattr")]
            conds = []
            if touches:
                conds.append(in_list)
                for e in touches:
                    conds.append(V.term(e[2]) == name_t)
                    conds.append(z3.BoolVal(e[0] == ("getattr" if which == 0 else "setattr")))
            if r.outcome == "raise":
                if not isinstance(r.exc, AttributeError):
                    conds.append(z3.BoolVal(False))
                # refusal is right iff not listed, or (get) the inner object lacks the attribute
                conds.append(z3.Or(z3.Not(in_list), z3.Not(HAS(z3.IntVal(0), name_t))) if which == 0 else z3.Not(in_list))
            else:
                conds.append(in_list)
                conds.append(z3.BoolVal(len(touches) == 1))
            holds, m = core.with_ctx(c, c.must_hold, z3.And(*conds))
            if not holds:
                nm = V.z3str_to_py(m.eval(name_t, model_completion=True))
                cex = dict(name=nm, attrs=sorted(c.notes["attrs"]), wattrs=sorted(c.notes["wattrs"]), which=which,
                           has=z3.is_true(m.eval(HAS(z3.IntVal(0), V.pystr_to_z3(nm)), model_completion=True)))
                run.replay(o, "restricted:%d" % which, "restricted view does not permit exactly its listed names: %r" % cex,
                           replay_restricted(cex))
                return
            if len(o.samples) < 4:
                o.samples.append({"lists": [sorted(c.notes["attrs"]), sorted(c.notes["wattrs"])], "op": which,
                                  "outcome": r.outcome, "touches": len(touches)})
        o.reach = "returning paths: %d" % sum(1 for r in res if r.outcome == "return")
        if not any(r.outcome == "return" for r in res):
            raise core.HarnessError("reachability twin: no permitted access path")
    return ob


def replay_restricted(cex):
    return '''import sys
sys.path.insert(0, __import__("os").environ.get("VERIF_REPO", "/repo"))
from rpyc.core.protocol import Connection, DEFAULT_CONFIG
from rpyc.utils.helpers import restricted
cex = %r
log = []
class Inner(object):
    def __getattribute__(self, n):
        log.append(("getattr", n))
        if cex["has"] and n == cex["name"]: return 1
        raise AttributeError(n)
    def __setattr__(self, n, v): log.append(("setattr", n))
attrs = set(cex["attrs"]); wattrs = set(cex["wattrs"])
view = restricted(Inner(), attrs, wattrs)
conn = object.__new__(Connection); conn._closed = True; conn._config = dict(DEFAULT_CONFIG)
name = cex["name"]
try:
    if cex["which"] == 0: Connection._handle_getattr(conn, view, name)
    else: Connection._handle_setattr(conn, view, name, "V")
    exc = None
except Exception as e:
    exc = e
listed = name in (attrs if cex["which"] == 0 else wattrs)
touched = [t for t in log if t[1] == name]
bad = (bool(log) and not listed) or any(t[1] != name for t in log)
if exc is None and not listed: bad = True
if exc is not None and listed and (cex["which"] == 1 or cex["has"]): bad = True
print(log, repr(exc), listed)
if bad:
    print("REPRODUCED"); sys.exit(1)
''' % (cex,)


# ---------------------------------------------------------------------------
def ob_isolation(run, interp):
    """one connection's configuration never changes what another allows"""
    from rpyc.core import protocol
    from rpyc.core.protocol import Connection, DEFAULT_CONFIG
    from rpyc.core.service import VoidService, SlaveService, Service

    class FakeChannel(object):
        def close(self):
            pass

        def send(self, data):
            pass

    KEYS = FLAGS + ["exposed_prefix", "allow_pickle", "import_custom_exceptions", "instantiate_custom_exceptions",
                    "instantiate_oldstyle_exceptions"]
    depth = 3 if run.tier == "thorough" else 2

    def ob(o):
        o.symbolic = ["history of <= %d events over {open with symbolic config, open classic (SlaveService), open default, close}" % depth,
                      "config values of the opened connections: symbolic Bool/String"]
        o.bounds = {"history_length": depth}
        pristine = dict(DEFAULT_CONFIG)
        pristine_safe = set(DEFAULT_CONFIG["safe_attrs"])

        def harness(c):
            conns = []
            hist = []
            for step in range(depth):
                ev = c.choose(4, "event")
                hist.append(ev)
                if ev == 0:
                    cfg = {}
                    for k in FLAGS:
                        cfg[k] = SymBool(c.fresh_bool("h_" + k))
                    cfg["exposed_prefix"] = SymStr(c.fresh_str("h_prefix"))
                    conns.append(interp.call(VoidService._connect, (FakeChannel(), cfg)))
                elif ev == 1:
                    conns.append(interp.call(SlaveService._connect, (FakeChannel(),)))
                elif ev == 2:
                    conns.append(interp.call(VoidService._connect, (FakeChannel(), {})))
                elif conns:
                    interp.call(Connection.close, (conns.pop(0),))
            probe = interp.call(VoidService._connect, (FakeChannel(),))
            c.notes["hist"] = hist
            return probe

        res, ex = explore(harness, deadline=run.deadline)
        o.paths = summarize_paths(res)
        for r in res:
            c = r.ctx
            if r.outcome != "return":
                raise core.HarnessError("isolation harness path ended with %s %r" % (r.outcome, r.exc))
            probe = r.value
            bad = None
            for k in KEYS:
                v = probe._config[k]
                if isinstance(v, V.Sym):
                    holds, m = core.with_ctx(c, c.must_hold, V.term(v) == V.term(pristine[k]))
                    if not holds:
                        bad = k
                elif v != pristine[k]:
                    bad = k
            for k in KEYS:
                v = protocol.DEFAULT_CONFIG[k]
                if isinstance(v, V.Sym) or v != pristine[k]:
                    bad = "DEFAULT_CONFIG[%s]" % k
            if probe._config is protocol.DEFAULT_CONFIG:
                bad = "shared dict"
            # undo any damage before the next path
            protocol.DEFAULT_CONFIG.clear()
            protocol.DEFAULT_CONFIG.update(pristine)
            if bad:
                run.replay(o, "isolation:%s" % "".join(map(str, c.notes["hist"])),
                           "after history %s a default connection's %s differs from the defaults" % (c.notes["hist"], bad),
                           replay_isolation(c.notes["hist"]))
                return
            if len(o.samples) < 3:
                o.samples.append({"history": c.notes["hist"], "probe_config_equals_defaults": True})
        o.reach = "%d histories" % len(res)
    return ob


def replay_isolation(hist):
    return '''import sys
sys.path.insert(0, __import__("os").environ.get("VERIF_REPO", "/repo"))
from rpyc.core import protocol
from rpyc.core.protocol import Connection
from rpyc.core.service import VoidService, SlaveService
class Ch(object):
    def close(self): pass
    def send(self, d): pass
pristine = dict(protocol.DEFAULT_CONFIG)
conns = []
for ev in %r:
    if ev == 0: conns.append(VoidService._connect(Ch(), dict(allow_all_attrs=True, allow_setattr=True, allow_delattr=True, allow_public_attrs=True, exposed_prefix="x_", allow_safe_attrs=False, allow_exposed_attrs=False, allow_getattr=False)))
    elif ev == 1: conns.append(SlaveService._connect(Ch()))
    elif ev == 2: conns.append(VoidService._connect(Ch(), {}))
    elif conns: conns.pop(0).close()
probe = VoidService._connect(Ch())
keys = [k for k in pristine if k != "connid"]
bad = [k for k in keys if probe._config[k] != pristine[k] or protocol.DEFAULT_CONFIG[k] != pristine[k]]
print("differing keys", bad)
if bad or probe._config is protocol.DEFAULT_CONFIG:
    print("REPRODUCED"); sys.exit(1)
''' % (hist,)


def main():
    core.INCREMENTAL = False     # path conditions contain z3 strings
    run = Run("C06", level="other")
    interp = Interp()
    run.assumptions = [
        "hasattr/getattr/setattr/delattr on the target object are abstracted by an uninterpreted existence predicate and an effect log",
        "safe_attrs is the default set shipped in DEFAULT_CONFIG (user-mutated sets are outside the claim)",
        "oracle (specs/policy_spec.py): weakest reading of the property -- when a name is allowed AND has an exposed twin, either target is accepted",
        "objects whose own hooks misbehave are outside the claim",
    ]
    run.outside = ["user code mutating safe_attrs", "hooks with side effects beyond the logged call"]
    run.obligation("O1_check_attr", "_check_attr == policy_spec for all switch settings, any prefix, any name", ob_check_attr(run, interp))
    run.obligation("O2_access_attr", "_access_attr: name typing, own hooks override, default accessor on the checked name", ob_access_attr(run, interp))
    run.obligation("O3_handlers", "every handler taking a peer-chosen name touches only what the policy permits for that operation kind", ob_handlers(run, interp))
    run.obligation("O3b_handlers_hooked", "on an object with its own attribute hooks every by-name handler goes through the hook, whatever the configuration",
                   ob_handlers_hooked(run, interp))
    run.obligation("O4_service_hooks", "Service denies set/del on itself for every name", ob_service_hooks(run, interp))
    run.obligation("O5_restricted", "restricted() permits exactly the listed names", ob_restricted(run, interp))
    run.obligation("O6_isolation", "a default connection opened after any history has the default policy", ob_isolation(run, interp))
    run.note_encoded(interp)
    sys.exit(run.finish())


if __name__ == "__main__":
    main()
