"""C08 -- every request gets exactly one response, delivered to its own requester.

Encoded (re-read from /repo at every run): Connection._dispatch_request,
_dispatch, _seq_request_callback, _async_request, async_request, _send, _box,
_unbox, _box_exc, brine.dump/load, vinegar.dump.
"""
import sys

import z3

from engine import core, values as V
from engine.core import ctx
from engine.harness import Run, Acc, par_explore
from engine.core import Unsupported, HarnessError
from engine.interp import Interp
from engine.models import SymText
from engine.rope import Rope
from engine.values import Sym, SymBool, SymInt
from specs import plain_sym as P


class RecChannel(object):
    def __init__(self, fail_at=None):
        self.frames = []
        self.fail_at = fail_at
        self.closed = False

    def send(self, data):
        if self.fail_at is not None and len(self.frames) == self.fail_at:
            raise EOFError("transport failed")
        self.frames.append(data)

    def close(self):
        self.closed = True


class Unprintable(object):
    """an object whose repr() fails (e.g. an object left in an inconsistent state)"""

    def __repr__(self):
        raise RuntimeError("repr failed")


class Obj(object):
    """something that travels by reference"""


def _builtin_exceptions():
    import builtins
    out = []
    for n in sorted(dir(builtins)):
        o = getattr(builtins, n)
        if isinstance(o, type) and issubclass(o, BaseException) and o.__name__ == n and n != "GeneratorExit":
            out.append(n)      # (GeneratorExit is reserved by the interpreter's own statement generators)
    return out


OUTCOMES = ["value-int", "value-text", "value-tuple", "reference", "tuple-with-ref", "bad-label", "unknown-handler", "wrong-arity",
            "args-not-a-pair", "raise-with-unprintable-arg", "raise-with-unprintable-attr", "raise-custom-BaseException", "raise-CancelledError"] + \
    ["raise-" + n for n in _builtin_exceptions()]


class ControlFlow(BaseException):
    """an application-defined control-flow exception (neither Exception nor SystemExit/KeyboardInterrupt)"""


def make_conn(cfg=None, channel=None):
    from rpyc.core.protocol import Connection
    from rpyc.core.service import VoidService
    conn = Connection(VoidService(), channel or RecChannel(), cfg or {})
    return conn


def retire(conn):
    conn._closed = True      # keep __del__ from talking to the fake channel


REPLAY_HEAD = '''# replay of a counterexample found by /verif (property C08) on the real rpyc
import sys
sys.path.insert(0, __import__("os").environ.get("VERIF_REPO", "/repo"))
from rpyc.core.protocol import Connection
from rpyc.core.service import VoidService
from rpyc.core import consts, brine
class Chan(object):
    def __init__(self): self.frames = []
    def send(self, d): self.frames.append(bytes(d))
    def close(self): pass
class Obj(object): pass
'''


def ob_dispatch_request(run, interp):
    from rpyc.core.protocol import Connection
    from rpyc.core import consts, brine

    def ob(o):
        o.symbolic = ["request sequence number: Int", "handler outcome: exhaustive over %s" % OUTCOMES,
                      "returned int: Int (unbounded -> includes ints the interpreter cannot render)", "returned text: opaque text incl. lone surrogates",
                      "propagate_SystemExit_locally / propagate_KeyboardInterrupt_locally: Bool"]
        acc = Acc()

        def harness(c):
            cfg = dict(propagate_SystemExit_locally=SymBool(c.fresh_bool("prop_sysexit")),
                       propagate_KeyboardInterrupt_locally=SymBool(c.fresh_bool("prop_kbint")))
            conn = make_conn(cfg)
            chan = conn._channel
            seq = SymInt(c.fresh_int("seq"))
            from engine import INT_MAX_STR_DIGITS as lim
            c.assume(z3.And(seq.e >= 0, seq.e < 10 ** lim))      # it was decoded from a frame, so it is renderable
            out = OUTCOMES[c.choose(len(OUTCOMES), "outcome")]
            calls = []
            obj = Obj()

            def spy(self_, *args):
                calls.append(args)
                if out == "value-int":
                    return SymInt(c.fresh_int("result"))
                if out == "value-text":
                    return SymText.fresh(c, "result")
                if out == "value-tuple":
                    return (SymInt(c.fresh_int("r0")), None, b"x")
                if out == "reference":
                    return obj
                if out == "tuple-with-ref":
                    return (1, obj)
                if out == "raise-with-unprintable-arg":
                    raise ValueError("bad thing", Unprintable())
                if out == "raise-with-unprintable-attr":
                    e = KeyError("k")
                    e.culprit = Unprintable()
                    raise e
                if out == "raise-custom-BaseException":
                    raise ControlFlow("stop")
                if out == "raise-CancelledError":
                    import asyncio
                    raise asyncio.CancelledError()
                if out.startswith("raise-"):
                    import builtins
                    cls = getattr(builtins, out[6:])
                    try:
                        e = cls.__new__(cls)
                        e.args = ("boom",)
                    except TypeError:
                        e = cls("group", [ValueError(1)])
                    raise e
                return 0
            conn._HANDLERS = dict(conn._HANDLERS)
            conn._HANDLERS[consts.HANDLE_PING] = spy
            arg = SymInt(c.fresh_int("arg"))
            c.assume(z3.And(arg.e > -(10 ** lim), arg.e < 10 ** lim))
            boxed = (consts.LABEL_TUPLE, ((consts.LABEL_VALUE, arg),))
            raw = (consts.HANDLE_PING, boxed)
            if out == "bad-label":
                raw = (consts.HANDLE_PING, (consts.LABEL_TUPLE, ((99, arg),)))
            elif out == "unknown-handler":
                raw = (777, boxed)
            elif out == "wrong-arity":
                raw = (consts.HANDLE_PING, (consts.LABEL_TUPLE, ()))
                conn._HANDLERS[consts.HANDLE_PING] = Connection._handle_ping
            elif out == "args-not-a-pair":
                raw = 5
            c.notes.update(conn=conn, chan=chan, seq=seq, out=out, calls=calls, cfg=cfg, arg=arg)
            try:
                return interp.call(Connection._dispatch_request, (conn, seq, raw))
            finally:
                retire(conn)

        def decode(c, frame):
            return interp.call(brine.load, (frame,))

        def on_path(r):
            c = r.ctx
            if r.outcome == "abort":
                return
            if r.outcome == "bound":
                raise core.BoundExceeded(str(r.exc))
            n = c.notes
            out, chan, seq, calls = n["out"], n["chan"], n["seq"], n["calls"]
            acc.inc(out)
            bad = None
            conds = []
            local = None
            if out == "raise-SystemExit":
                local = n["cfg"]["propagate_SystemExit_locally"].e
            elif out == "raise-KeyboardInterrupt":
                local = n["cfg"]["propagate_KeyboardInterrupt_locally"].e
            if len(calls) > 1:
                bad = "handler executed %d times" % len(calls)
            if r.outcome == "raise":
                if local is not None and type(r.exc).__name__ in ("SystemExit", "KeyboardInterrupt"):
                    conds.append(local)          # may only escape when configured to propagate locally
                    if chan.frames:
                        bad = "a response was sent although the exception is propagated locally"
                else:
                    bad = "%s escaped the dispatcher; %d response frame(s) sent; the connection would be torn down" % (
                        type(r.exc).__name__, len(chan.frames))
            else:
                if local is not None:
                    conds.append(z3.Not(local))
                if len(chan.frames) != 1:
                    bad = bad or "%d response frames for one request" % len(chan.frames)
                else:
                    c.frozen = False
                    try:
                        msg = decode(c, chan.frames[0])
                    except Exception as e:
                        msg = None
                        bad = "response frame undecodable: %r" % (e,)
                    finally:
                        c.frozen = True
                    if msg is not None:
                        kind, rseq, payload = msg
                        unencodable = any(e[0] == "int_too_long" for e in c.log)
                        want_kind = consts.MSG_REPLY if (out.startswith(("value", "reference", "tuple-with")) and not unencodable) \
                            else consts.MSG_EXCEPTION
                        if kind != want_kind:
                            bad = bad or "response kind %r for outcome %s" % (kind, out)
                        eq = V.compare("==", rseq, seq)
                        if eq is False:
                            bad = bad or "response bears another sequence number"
                        elif eq is not True:
                            conds.append(V.truth_term(eq))
                if out not in ("bad-label", "unknown-handler", "wrong-arity", "args-not-a-pair") and len(calls) != 1:
                    bad = bad or "handler executed %d times" % len(calls)
                if out in ("bad-label", "unknown-handler", "args-not-a-pair") and calls:
                    bad = bad or "handler ran although the request could not be decoded"
            model = None
            if bad is None and conds:
                ok, model = c.must_hold(z3.And(*conds))
                if not ok:
                    bad = "sequence number / propagation rule violated for outcome %s" % out
            if len(o.samples) < 6:
                o.samples.append({"outcome": out, "frames": [str(f)[:80] for f in chan.frames], "path": r.outcome})
            if bad and len(o.violations) < 6:
                m = model or c.check_model()
                if m is None:
                    return
                big = any(e[0] == "int_too_long" for e in c.log)
                sig = "dispatch:%s:%s%s" % (out, "escaped" if "escaped" in bad else bad.split()[0], ":unrenderable-int" if big else "")
                if any(v["signature"] == sig for v in o.violations):
                    return
                flags = [z3.is_true(m.eval(n["cfg"][k].e, model_completion=True)) for k in ("propagate_SystemExit_locally", "propagate_KeyboardInterrupt_locally")]
                run.replay(o, sig, "%s (outcome %s%s)" % (bad, out, ", result is an int beyond the interpreter's digit limit" if big else ""),
                           replay_dispatch(out, big, flags, m.eval(seq.e, model_completion=True).as_long()))

        n_, incomplete = par_explore(run, o, harness, on_path, acc, split_depth=4)
        o.paths = dict(acc.counts, total=n_)
        if incomplete:
            o.verdict = "inconclusive"
            o.detail = incomplete
        if len(acc.counts) != len(OUTCOMES):
            raise core.HarnessError("reachability twin: outcomes reached %s" % sorted(acc.counts))
    return ob


def replay_dispatch(out, big, flags, seq):
    return REPLAY_HEAD + '''
out, big, flags, seq = %r, %r, %r, %r
ch = Chan()
conn = Connection(VoidService(), ch, dict(propagate_SystemExit_locally=flags[0], propagate_KeyboardInterrupt_locally=flags[1]))
calls = []
obj = Obj()
def spy(self, *a):
    calls.append(a)
    if out == "value-int": return 10 ** 5000 if big else 12345678901234567890
    if out == "value-text": return "a\\ud800b"
    if out == "value-tuple": return (10 ** 5000 if big else 7, None, b"x")
    if out == "reference": return obj
    if out == "tuple-with-ref": return (1, obj)
    class Unprintable(object):
        def __repr__(self): raise RuntimeError("repr failed")
    if out == "raise-with-unprintable-arg": raise ValueError("bad thing", Unprintable())
    if out == "raise-with-unprintable-attr":
        e = KeyError("k"); e.culprit = Unprintable(); raise e
    if out == "raise-custom-BaseException":
        class ControlFlow(BaseException): pass
        raise ControlFlow("stop")
    if out == "raise-CancelledError":
        import asyncio
        raise asyncio.CancelledError()
    if out.startswith("raise-"):
        import builtins
        cls = getattr(builtins, out[6:])
        try:
            e = cls.__new__(cls); e.args = ("boom",)
        except TypeError:
            e = cls("group", [ValueError(1)])
        raise e
    return 0
conn._HANDLERS = dict(conn._HANDLERS); conn._HANDLERS[consts.HANDLE_PING] = spy
boxed = (consts.LABEL_TUPLE, ((consts.LABEL_VALUE, 5),))
raw = (consts.HANDLE_PING, boxed)
if out == "bad-label": raw = (consts.HANDLE_PING, (consts.LABEL_TUPLE, ((99, 5),)))
elif out == "unknown-handler": raw = (777, boxed)
elif out == "wrong-arity":
    raw = (consts.HANDLE_PING, (consts.LABEL_TUPLE, ())); conn._HANDLERS[consts.HANDLE_PING] = Connection._handle_ping
elif out == "args-not-a-pair": raw = 5
bad = []
try:
    conn._dispatch_request(seq, raw)
    escaped = None
except BaseException as e:
    escaped = e
local = (out == "raise-SystemExit" and flags[0]) or (out == "raise-KeyboardInterrupt" and flags[1])
if escaped is not None and not local: bad.append("escaped: %%r" %% (escaped,))
if escaped is None and local: bad.append("not propagated locally")
if not local:
    if len(ch.frames) != 1: bad.append("%%d response frames" %% len(ch.frames))
    else:
        kind, rseq, payload = brine.load(ch.frames[0])
        if rseq != seq: bad.append("seq %%r != %%r" %% (rseq, seq))
if len(calls) > 1: bad.append("handler ran %%d times" %% len(calls))
conn._closed = True
print(bad)
if bad:
    print("REPRODUCED"); sys.exit(1)
''' % (out, big, flags, seq)


# ---------------------------------------------------------------------------
def ob_correlation(run, interp):
    """every response is delivered to the request with that number and to no other"""
    from rpyc.core.protocol import Connection
    from rpyc.core import consts, brine

    def ob(o):
        o.symbolic = ["sequence number carried by the incoming response: Int", "pending table: 3 outstanding requests", "response kind: reply / exception", "payload: Int"]
        acc = Acc()

        def harness(c):
            conn = make_conn()
            got = {}
            for k in (0, 1, 2):
                conn._request_callbacks[k] = (lambda k: (lambda is_exc, obj: got.setdefault(k, []).append((is_exc, obj))))(k)
            seq = SymInt(c.fresh_int("rseq"))
            kind = [consts.MSG_REPLY, consts.MSG_EXCEPTION][c.choose(2, "kind")]
            val = SymInt(c.fresh_int("val"))
            if kind == consts.MSG_REPLY:
                msg = (kind, seq, (consts.LABEL_VALUE, val))
            else:
                msg = (kind, seq, (("builtins", "ValueError"), (val,), (), "tb"))
            data = P.ref_encode(msg)
            data = Rope(_materialize(c, data))
            c.notes.update(conn=conn, got=got, seq=seq, kind=kind, val=val)
            try:
                return interp.call(Connection._dispatch, (conn, data))
            finally:
                retire(conn)

        def on_path(r):
            c = r.ctx
            if r.outcome == "abort" or any(e[0] == "int_too_long" for e in c.log):
                return
            n = c.notes
            conn, got, seq = n["conn"], n["got"], n["seq"]
            acc.inc("checked")
            bad = None
            conds = []
            if r.outcome != "return":
                bad = "dispatching a response raised %s: %s" % (type(r.exc).__name__ if r.exc else r.outcome, r.exc)
            else:
                hit = sorted(got)
                if len(hit) > 1 or any(len(v) != 1 for v in got.values()):
                    bad = "response delivered to %s" % (got,)
                elif hit:
                    k = hit[0]
                    conds.append(seq.e == k)
                    if k in conn._request_callbacks:
                        bad = "callback not removed after delivery"
                    is_exc, obj = got[k][0]
                    if is_exc != (n["kind"] == consts.MSG_EXCEPTION):
                        bad = "reply/exception flag wrong"
                    if not is_exc:
                        eq = V.compare("==", obj, n["val"])
                        conds.append(V.truth_term(eq) if isinstance(eq, Sym) else z3.BoolVal(bool(eq)))
                    if sorted(conn._request_callbacks) != [x for x in (0, 1, 2) if x != k]:
                        bad = bad or "another request's callback was touched"
                else:
                    conds.append(z3.And(seq.e != 0, seq.e != 1, seq.e != 2))
                    if sorted(conn._request_callbacks) != [0, 1, 2]:
                        bad = "a response with an unknown number removed a pending callback"
            model = None
            if bad is None and conds:
                ok, model = c.must_hold(z3.And(*conds))
                if not ok:
                    bad = "response delivered to the wrong request"
            if len(o.samples) < 4:
                o.samples.append({"delivered_to": sorted(got), "pending_after": sorted(conn._request_callbacks)})
            if bad and len(o.violations) < 2:
                m = model or c.check_model()
                if m is None:
                    return
                sv = m.eval(seq.e, model_completion=True).as_long()
                run.replay(o, "correlation:%s" % bad.split()[0], "%s (incoming seq %d, pending 0,1,2)" % (bad, sv), REPLAY_HEAD + '''
conn = Connection(VoidService(), Chan())
got = {}
for k in (0, 1, 2):
    conn._request_callbacks[k] = (lambda k: (lambda e, o: got.setdefault(k, []).append((e, o))))(k)
seq = %d
conn._dispatch(brine.dump((consts.MSG_REPLY, seq, (consts.LABEL_VALUE, 42))))
conn._closed = True
exp = {seq: [(False, 42)]} if seq in (0, 1, 2) else {}
print(got, sorted(conn._request_callbacks))
if got != exp or sorted(conn._request_callbacks) != [k for k in (0, 1, 2) if k != seq]:
    print("REPRODUCED"); sys.exit(1)
''' % sv)

        n_, incomplete = par_explore(run, o, harness, on_path, acc, split_depth=3)
        o.paths = dict(acc.counts, total=n_)
        if incomplete:
            o.verdict = "inconclusive"
            o.detail = incomplete
        if not acc.counts.get("checked"):
            raise core.HarnessError("reachability twin")
    return ob


def _materialize(c, rope_or_segs):
    """reference-encoder output -> a rope the real decoder can read (payload markers become origin blobs)"""
    from engine.rope import Rope as R
    segs = rope_or_segs.segs if isinstance(rope_or_segs, R) else rope_or_segs
    out = []
    for s in segs:
        if isinstance(s, tuple):
            if s[0] == "digits":
                t = SymText.digits(s[1])
                out += list(R.blob("utf8", t.ulen, origin=("text", t, "strict"), assume_nonneg=False).segs)
            elif s[0] == "text":
                out += list(R.blob("utf8", s[1].ulen, origin=("text", s[1], "strict"), assume_nonneg=False).segs)
            else:
                raise core.Unsupported("marker %r" % (s[0],))
        else:
            out.append(s)
    return out


def ob_async_request(run, interp):
    """_async_request registers the callback before sending and unregisters it
    when sending fails; sequence numbers strictly increase"""
    from rpyc.core.protocol import Connection
    from rpyc.core import consts, brine

    def ob(o):
        o.symbolic = ["argument: Int (unbounded: encoding may fail) or an object whose boxing raises", "transport failure at the k-th frame (none/0/1)", "two consecutive requests"]
        acc = Acc()

        class Unboxable(dict):
            """an argument whose boxing fails: identifying it raises (hasattr on a class with a raising __getattr__)"""
            __getattr__ = dict.__getitem__

        def harness(c):
            fail = [None, 0, 1][c.choose(3, "fail_at")]
            conn = make_conn(channel=RecChannel(fail))
            arg = SymInt(c.fresh_int("arg"))
            if c.choose(2, "argument-kind") == 1:
                arg = Unboxable()
            seen = []
            res = []
            c.notes.update(conn=conn, res=res, fail=fail)
            try:
                for i in range(2):
                    pending_before = set(conn._request_callbacks)
                    try:
                        interp.call(Connection._async_request, (conn, consts.HANDLE_PING, (arg,), (lambda i: (lambda a, b: seen.append(i)))(i)))
                        res.append(("ok", set(conn._request_callbacks) - pending_before))
                    except Exception as e:
                        res.append((type(e).__name__, set(conn._request_callbacks) - pending_before))
                return res
            finally:
                retire(conn)

        def on_path(r):
            c = r.ctx
            if r.outcome == "abort":
                return
            n = c.notes
            conn = n["conn"]
            acc.inc("checked")
            bad = None
            if r.outcome != "return":
                bad = "harness path %s %r" % (r.outcome, r.exc)
            else:
                seqs = []
                for (st, new) in r.value:
                    if st == "ok":
                        if len(new) != 1:
                            bad = "request sent but %d callbacks registered" % len(new)
                        else:
                            seqs.append(list(new)[0])
                    elif new:
                        bad = "the request failed (%s) before reaching the wire but its callback stayed registered" % st
                if len(conn._channel.frames) != len(seqs):
                    bad = bad or "%d frames for %d successful requests" % (len(conn._channel.frames), len(seqs))
                if seqs != sorted(set(seqs)):
                    bad = bad or "sequence numbers not strictly increasing: %s" % seqs
                if bad is None:
                    c.frozen = False
                    try:
                        for f, s in zip(conn._channel.frames, seqs):
                            m = interp.call(brine.load, (f,))
                            if m[0] != consts.MSG_REQUEST or m[1] != s:
                                bad = "request frame bears seq %r, callback registered under %r" % (m[1], s)
                    finally:
                        c.frozen = True
            if len(o.samples) < 4 and r.outcome == "return":
                o.samples.append({"results": [(a, sorted(b)) for a, b in r.value], "fail_at": n["fail"]})
            if bad and len(o.violations) < 2:
                run.replay(o, "async_request:%s" % bad.split()[0], bad + " (transport fails at frame %r)" % (n["fail"],), REPLAY_HEAD + '''
class FailChan(Chan):
    def __init__(self, at): Chan.__init__(self); self.at = at
    def send(self, d):
        if self.at is not None and len(self.frames) == self.at: raise EOFError()
        Chan.send(self, d)
bad = []
class Unboxable(dict):
    __getattr__ = dict.__getitem__
for at in (None, 0, 1):
    for arg in (5, 10 ** 5000, Unboxable()):
        conn = Connection(VoidService(), FailChan(at))
        seqs = []
        for i in range(2):
            before = set(conn._request_callbacks)
            try:
                conn._async_request(consts.HANDLE_PING, (arg,), lambda a, b: None)
                new = set(conn._request_callbacks) - before
                if len(new) != 1: bad.append("registered %r" % new)
                seqs += list(new)
            except Exception as e:
                if set(conn._request_callbacks) - before: bad.append("callback left after %s" % type(e).__name__)
        if seqs != sorted(set(seqs)): bad.append("seqs %r" % seqs)
        if [brine.load(f)[1] for f in conn._channel.frames] != seqs: bad.append("frame seqs differ")
        conn._closed = True
print(bad)
if bad:
    print("REPRODUCED"); sys.exit(1)
''')

        n_, incomplete = par_explore(run, o, harness, on_path, acc, split_depth=3)
        o.paths = dict(acc.counts, total=n_)
        if incomplete:
            o.verdict = "inconclusive"
            o.detail = incomplete
    return ob


def ob_seq_fresh(run, interp):
    """the number given to a new request differs from the number of every request still outstanding on that connection,
    however many requests were issued in between (a request may stay outstanding arbitrarily long: its handler can call
    back and the callback can issue any number of further requests).  The number source is read off the real Connection
    object; the recurrence it implements is encoded over unbounded integers."""
    import ast
    import inspect
    import itertools
    import re
    import textwrap
    from rpyc.core.protocol import Connection
    from rpyc.core import protocol, consts

    def ob(o):
        o.symbolic = ["positions i < j (Int, unbounded) of two requests issued on one connection, request i still outstanding when j is issued"]
        conn = make_conn()
        try:
            src = conn._seqcounter
            desc = repr(src)[:80]
            i, j = z3.Int("i"), z3.Int("j")
            if type(src) is itertools.count:
                m = re.match(r"count\((-?\d+)(?:, (-?\d+))?\)$", repr(src))
                if not m:
                    raise Unsupported("number source %s: only integer counters are encoded" % desc)
                a, st = int(m.group(1)), int(m.group(2) or 1)
                seq = lambda k: a + st * k
                model = "seq(k) = %d + %d*k" % (a, st)
            elif type(src) is itertools.cycle:
                tree = ast.parse(textwrap.dedent(inspect.getsource(Connection.__init__)))
                rhs = [n.value for n in ast.walk(tree) if isinstance(n, ast.Assign) and any(
                    isinstance(t, ast.Attribute) and t.attr == "_seqcounter" for t in n.targets)]
                if len(rhs) != 1 or not isinstance(rhs[0], ast.Call) or len(rhs[0].args) != 1 or rhs[0].keywords:
                    raise Unsupported("number source %s: cannot find what it cycles over" % desc)
                it = eval(compile(ast.Expression(rhs[0].args[0]), "<seqcounter>", "eval"), dict(vars(protocol), self=conn))
                if not hasattr(it, "__len__") or not 0 < len(it) <= 1 << 22:
                    raise Unsupported("number source %s: cycles over something unsized or too large" % desc)
                vals = list(it)
                n = len(vals)
                a, st = vals[0], (vals[1] - vals[0] if n > 1 else 0)
                if not all(type(v) is int for v in vals) or vals != [a + st * k for k in range(n)]:
                    raise Unsupported("number source %s: not an arithmetic progression" % desc)
                seq = lambda k: a + st * (k % n)
                model = "seq(k) = %d + %d*(k mod %d)" % (a, st, n)
            else:
                raise Unsupported("number source %s (%s) has no symbolic model" % (desc, type(src).__name__))
            # the encoding is validated against the real method on its first numbers
            drawn = [Connection._get_seq_id(conn) for _ in range(3)]
            z = [z3.simplify(z3.IntVal(0) + seq(z3.IntVal(k))).as_long() for k in range(3)]
            if drawn != z:
                raise HarnessError("encoding of the number source (%s) disagrees with Connection._get_seq_id: %r vs %r" % (model, drawn, z))
        finally:
            retire(conn)
        o.samples.append({"number_source": desc, "encoded_as": model, "validated_on": drawn})
        base = [i >= 0, j > i]
        r, _ = core.solve(base + [seq(i) != seq(j)])          # reachability witness of the query
        if r != "sat":
            raise HarnessError("vacuous query: %s" % r)
        r, mdl = core.solve(base + [seq(i) == seq(j)], timeout_ms=60000)
        o.paths = dict(total=1, checked=1)
        if r == "unknown":
            o.verdict = "inconclusive"
            o.detail = "solver gave no answer on the freshness query"
            return
        if r == "unsat":
            return
        for k in range(2, 24):                                # a small witness, for a fast replay
            r2, m2 = core.solve(base + [seq(i) == seq(j), i <= 4, j <= (1 << k)])
            if r2 == "sat":
                mdl = m2
                break
        vi, vj = mdl.eval(i, model_completion=True).as_long(), mdl.eval(j, model_completion=True).as_long()
        if vj > 1 << 23:
            o.verdict = "inconclusive"
            o.detail = "numbers repeat (requests %d and %d) but the witness is too long to replay" % (vi, vj)
            return
        run.replay(o, "seq_fresh:reuse", "request number %d of a connection gets the number of request number %d, which may still be outstanding (%s): "
                   "its callback is overwritten, its reply goes to the wrong request" % (vj, vi, model), REPLAY_HEAD + """
I, J = %d, %d
conn = Connection(VoidService(), Chan())
for _ in range(I): conn._get_seq_id()
got = []
conn._async_request(consts.HANDLE_PING, (b"A",), lambda isexc, obj: got.append(("A", obj)))
a = set(conn._request_callbacks)
for _ in range(J - I - 1): conn._get_seq_id()
conn._async_request(consts.HANDLE_PING, (b"B",), lambda isexc, obj: got.append(("B", obj)))
b = set(conn._request_callbacks)
print(sorted(a), sorted(b))
# the peer answers B first, then A
seqA = list(a)[0]; seqB = list(b - a)[0] if b - a else seqA
conn._dispatch(brine.dump((consts.MSG_REPLY, seqB, (consts.LABEL_VALUE, b"reply-to-B"))))
conn._dispatch(brine.dump((consts.MSG_REPLY, seqA, (consts.LABEL_VALUE, b"reply-to-A"))))
conn._closed = True
print(got)
if got != [("B", b"reply-to-B"), ("A", b"reply-to-A")]:
    print("REPRODUCED"); sys.exit(1)
""" % (vi, vj))
    return ob


def main():
    run = Run("C08", level="other")
    interp = Interp()
    run.assumptions = ["brine / channel contracts of C04/C05 (the real brine code is executed symbolically here as well)",
                       "itertools.count(a, s) yields a + s*k at its k-th call (the only fact assumed about the number source; O4 decides freshness from it over unbounded integers; its atomicity under threads is C13's subject)"]
    run.outside = ["multi-threaded interleavings (C12/C13)", "transport failure in the middle of a response frame (C11)"]
    run.obligation("O1_dispatch_request", "one request -> exactly one response frame with its own number, handler at most once, nothing escapes",
                   ob_dispatch_request(run, interp))
    run.obligation("O2_correlation", "a response is delivered to the request with that number and to no other; unknown numbers are dropped",
                   ob_correlation(run, interp))
    run.obligation("O3_async_request", "callback registered before sending, unregistered on failure; numbers strictly increase",
                   ob_async_request(run, interp))
    run.obligation("O4_seq_fresh", "a new request never gets the number of a request still outstanding, however many were issued in between (unbounded)",
                   ob_seq_fresh(run, interp))
    run.note_encoded(interp)
    sys.exit(run.finish())


if __name__ == "__main__":
    main()
