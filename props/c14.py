"""C14 -- a waiter returns as soon as its reply has been processed by any thread.
C13 -- threads sharing a connection never cross, duplicate or lose replies.

Both are decided on the shared engine-B model (props/serve_model.py); this module
is the driver for either property (argument / module alias selects which).
"""
import os
import sys
import time

import z3

from engine import core
from engine.core import Unsupported, HarnessError
from engine.harness import Run
from props import serve_model as sm


REPLAY = '''# replay of a schedule found by /verif (property %(pid)s) on the real rpyc with real threads
import sys, threading, time
sys.path.insert(0, __import__("os").environ.get("VERIF_REPO", "/repo")); sys.path.insert(0, "/verif")
from engine.sched import Gate, Mismatch
import rpyc.lib
from rpyc.core.protocol import Connection
from rpyc.core.async_ import AsyncResult
from rpyc.core.service import VoidService
from rpyc.core import consts, brine
from rpyc.utils.helpers import BgServingThread
schedule, lines, nwait, with_bg = %(schedule)r, %(lines)r, %(nwait)d, %(with_bg)r
codes = {"areq": Connection._async_request.__code__, "wait": AsyncResult.wait.__code__, "call": AsyncResult.__call__.__code__, "serve": Connection.serve.__code__,
         "dispatch": Connection._dispatch.__code__, "seqcb": Connection._seq_request_callback.__code__,
         "bg": BgServingThread._bg_server.__code__}
gate = Gate(dict((codes[k], set(v)) for k, v in lines.items()), timeout=4.0)
stalls = []
class Chan(object):
    """in-memory channel with virtual time: a poll that would block is recorded, not slept"""
    def __init__(self): self.inbox = []
    def poll(self, timeout):
        if self.inbox: return True
        left = rpyc.lib.Timeout(timeout).timeleft()
        if left is None or left > 0:
            me = gate.tids.get(threading.get_ident())
            stalls.append((me, left))
            gate.point("poll-blocked")          # parked for good: only a timeout or new traffic would wake it
            return bool(self.inbox)
        return False
    def recv(self): return self.inbox.pop(0)
    def send(self, d): pass
    def close(self): pass
class GatedCondition(object):
    """Condition whose wait() parks at the gate (the scheduler decides when a notified waiter resumes)"""
    def __init__(self): self.lock = threading.Lock(); self.waiters = {}
    def __enter__(self): self.lock.acquire(); return self
    def __exit__(self, *a): self.lock.release()
    def wait(self, timeout=None):
        if timeout is not None and timeout <= 0: return False
        me = gate.tids.get(threading.get_ident())
        self.waiters[me] = False
        self.lock.release()
        gate.point("cv-wait")
        self.lock.acquire()
        self.waiters.pop(me, None)
        return True
    def notify_all(self):
        for t in self.waiters: self.waiters[t] = True
chan = Chan()
conn = Connection(VoidService(), chan)
conn._recv_event = GatedCondition()
results = []
for r in range(1, nwait + 1):
    res = AsyncResult(conn); res.set_expiry(30); results.append(res)
conn._get_seq_id = lambda: gate.tids.get(threading.get_ident()) + 1      # thread t issues request t + 1, as in the model
outcome = {}
def waiter(i):
    def run():
        conn._async_request(consts.HANDLE_PING, (), results[i])          # issue the request (registers the result as its callback)
        results[i].wait(); outcome[i] = "returned"
    return run
bg = object.__new__(BgServingThread); bg._conn = conn; bg._active = True; bg._callback = None
fns = [waiter(i) for i in range(nwait)] + ([bg._bg_server] if with_bg else [])
gate.start(fns)
mismatch = None
replied = set()
try:
    for (actor, pos, detail) in schedule:
        if actor == "peer":
            chan.inbox.append(brine.dump((consts.MSG_REPLY, detail, (consts.LABEL_VALUE, 40 + detail)))); replied.add(detail); continue
        at = gate.position(actor)
        want = "cv-wait" if detail.endswith(":wake") else pos
        if at != want:
            mismatch = "step %%r: thread %%d is at %%r" %% ((actor, pos, detail), actor, at); break
        gate.release(actor)
except Mismatch as e:
    mismatch = str(e)
print("mismatch:", mismatch)
if mismatch:
    bg._active = False; gate.finish(); print("MODEL-MISMATCH"); sys.exit(3)
'''

REPLAY_C14 = '''
# the model's final state is a stall: thread 0's result is ready, and thread 0 is about to block
pos = gate.position(0)
ready = results[0]._is_ready
print("waiter at", pos, "| own result ready:", ready, "| inbox:", len(chan.inbox), "| receive lock held:", conn._recvlock.locked())
stalled = False
if ready and pos is not None:
    if pos == "cv-wait":
        stalled = True
    else:
        try:
            gate.release(0)                 # let it execute the receive statement: with an empty inbox it would sleep
        except Mismatch:
            pass
        stalled = any(t == 0 for (t, left) in stalls)
print("virtual-time polls that would block:", stalls)
bg._active = False
gate.finish()
if stalled:
    print("the waiter's reply was processed by another thread, yet the waiter goes on waiting (for up to %s s)" % (stalls[0][1] if stalls else "its timeout"))
    print("REPRODUCED"); sys.exit(1)
'''

REPLAY_C13 = '''
bad = []
# let every thread that is not asleep in Condition.wait run on (the real background thread never stops by itself)
for _ in range(400):
    movers = [t for t in gate.runnable() if gate.position(t) not in ("cv-wait", "poll-blocked")]
    if not movers: break
    try:
        gate.release(movers[0])
    except Mismatch:
        break
left = gate.runnable()
asleep = [t for t, n in conn._recv_event.waiters.items() if not n and t < nwait]
for t in asleep:
    if results[t]._is_ready:
        bad.append("thread %%d sleeps in Condition.wait un-notified although its reply has been processed (it can only wake by timeout)" %% t)
    elif chan.inbox and not conn._recvlock.locked():
        bad.append("a reply is in the inbox, the receive lock is free and thread %%d sleeps un-notified (lost wake-up)" %% t)
bg._active = False
done = gate.finish()
for i, res in enumerate(results):
    if res._is_ready and res._obj != 41 + i: bad.append("request %%d got %%r" %% (i + 1, res._obj))
print("outcome", outcome, "runnable at the end of the schedule", left, "stalls", stalls)
%(extra)s
print(bad)
if bad:
    print("REPRODUCED"); sys.exit(1)
'''


def replay_script(pid, prog, model, schedule, extra=""):
    head = REPLAY % dict(pid=pid, schedule=schedule, lines=prog.gated_lines(), nwait=model.nwait, with_bg=model.with_bg)
    return head + (REPLAY_C14 if pid == "C14" else REPLAY_C13 % dict(extra=extra))


def stall_signature(prog, model, schedule, bmc=None, m=None):
    """where the waiter stands in the stall state and how it got there (stable across runs): the recorded finding is the
    waiter taking the receive lock while its reply is in the other thread's hands (received, not yet dispatched); a waiter
    that walks into the blocking receive although its result was ALREADY there is a different defect"""
    last = None
    for (a_, pos, detail) in schedule:
        if a_ == 0:
            last = (detail.split(":")[0], pos)
    sig = "stall:waiter-at-%s" % ("receive" if last and last[0] == "serve" else (last[0] if last else "?"))
    if bmc is not None and m is not None:
        sched = bmc.schedule(m)
        tr = bmc.trace(m, ["ready1", "recvlock"])
        entry_ready = None
        for i, a_ in enumerate(sched):
            if a_ == 0 and i + 1 < len(tr) and not tr[i]["recvlock"] and tr[i + 1]["recvlock"]:
                entry_ready = tr[i]["ready1"]          # the waiter's last acquisition of the receive lock
        if entry_ready:
            sig += ":result-ready-at-entry"
    return sig


def check_c14(run):
    prog = sm.Program()
    run.functions_encoded.update(prog.describe())
    thorough = run.tier == "thorough"
    K = 60
    states = [0, 0]

    def ob(o):
        model = sm.ServeModel(prog, 1, True, bg_iters=2)
        bmc = sm.ServeBMC(model, model.T, K, max_preemptions=None if thorough else 2)
        bmc.nthreads_for_cubes = model.T + 1
        o.bounds = dict(threads="1 waiter + 1 background serving thread + the peer", steps=K, locations=len(prog.nodes),
                        max_preemptions=None if thorough else 2, timeouts="never fire in the model: a state that only a timeout can leave is the bad state")
        states[0] = K * model.T
        states[1] = K * model.T * len(prog.nodes)
        r, m = bmc.check(lambda S: z3.And(S.v["ready1"], model.blocked_in_poll(S, 0)), at="any", timeout_ms=1500000, cubes=3 if thorough else 0)
        o.samples.append({"query": "reachable: own result ready AND blocked in poll/Condition.wait", "result": r, "solver_s": round(bmc.last_time, 1)})
        if r == "unknown":
            raise Unsupported("engine B: stall query unknown/timeout")
        if r == "sat":
            sched = sm.trace_of(prog, model, bmc, m)
            run.replay(o, stall_signature(prog, model, sched, bmc, m),
                       "the waiter's own reply has been dispatched by the background thread, yet the waiter is blocked in the receive "
                       "statement with an empty inbox (it re-entered serve() between notify_all() and _dispatch()); schedule of %d steps" % len(sched),
                       replay_script("C14", prog, model, sched))
        # a second, separate query for any stall that is NOT the recorded finding: the waiter walks into the blocking receive
        # although its own result was already there when it took the receive lock
        r3, m3 = bmc.check(lambda S: z3.And(S.v["ready1"], model.blocked_in_poll(S, 0), S.v["eready0"]), at="any", timeout_ms=900000, cubes=3 if thorough else 0)
        o.samples.append({"query": "reachable: blocked in the receive although the result was ready on entering serve()", "result": r3, "solver_s": round(bmc.last_time, 1)})
        if r3 == "unknown":
            raise Unsupported("engine B: second stall query unknown/timeout")
        if r3 == "sat":
            sched3 = sm.trace_of(prog, model, bmc, m3)
            run.replay(o, stall_signature(prog, model, sched3, bmc, m3),
                       "the waiter enters serve() and blocks in the receive statement although its own result was already there; schedule of %d steps" % len(sched3),
                       replay_script("C14", prog, model, sched3))
        # The other conceivable shape -- asleep in Condition.wait, un-notified, result ready -- is not queried in this
        # configuration: with the background thread cut off after a bounded number of iterations it would be an artefact
        # of the bound (every further iteration of the real thread notifies), so it could raise a false alarm.
        # reachability twin: the waiter can also return
        r2, m2 = bmc.check(lambda S: S.v["depth0"] == 0, at="any", timeout_ms=600000)
        o.reach = "waiter returns on some schedule: %s" % r2
        if r2 != "sat":
            raise HarnessError("reachability twin failed: %s" % r2)
    run.obligation("BMC_stall_1w_bg", "no reachable state where a waiter's result is ready while it can only be woken by a timeout", ob)
    run.extra = dict(states=max(1, states[0]), transitions=max(1, states[1]), traces_validated_against_impl=sum(
        1 for o in run.obligations for v in o.violations if v["reproduced"]),
        explanation="symbolic unrolling of %d statement-steps; every counterexample schedule is executed on real threads" % K)


def check_c13(run):
    prog = sm.Program()
    run.functions_encoded.update(prog.describe())
    thorough = run.tier == "thorough"
    K = 60
    stats = [0, 0]
    # (waiters, background thread, pre-emption bound, statement-steps, deadlock query?)
    configs = [(1, True, 1, 64, True), (2, False, 1, 48, False)]
    if thorough:
        # (the 2-waiter deadlock query at 60 steps / 2 pre-emptions does not finish within 20 min: the lost-wake-up clause of the
        # safety query covers the 2-waiter "nobody will notify" states, the deadlock query stays with the 1-waiter configuration)
        configs = [(1, True, 2, 64, True), (2, False, 2, 48, False)]

    def mk(nw, bg, mp, K, with_deadlock):
        def ob(o):
            model = sm.ServeModel(prog, nw, bg, bg_iters=2)
            bmc = sm.ServeBMC(model, model.T, K, max_preemptions=mp)
            bmc.nthreads_for_cubes = model.T + 1
            cubes = 3
            o.bounds = dict(waiters=nw, background_thread=bg, steps=K, locations=len(prog.nodes), max_preemptions=mp,
                            unwinding="NOT established: the claim is depth-bounded (all interleavings of the first %d statement-steps); "
                                      "a complete request/reply hand-off by every thread takes about 45 steps" % K)
            stats[0] += K * model.T
            stats[1] += K * model.T * len(prog.nodes)
            # safety: no frame dispatched twice, no crossed replies, no early return, no lost wake-up
            r, m = bmc.check(lambda S: z3.Or(model.bad_safety(S), model.lost_wakeup(S)), at="any", timeout_ms=3600000, cubes=cubes)
            o.samples.append({"query": "reachable: duplicate dispatch / crossed reply / return without reply / lost wake-up", "result": r,
                              "solver_s": round(bmc.last_time, 1)})
            if r == "unknown":
                raise Unsupported("engine B: safety query unknown/timeout")
            if r == "sat":
                sched = sm.trace_of(prog, model, bmc, m)
                run.replay(o, "serve:safety:%dw%s" % (nw, "+bg" if bg else ""), "crossed/duplicated/lost reply; schedule of %d steps: %s" % (len(sched), sched[-12:]),
                           replay_script("C13", prog, model, sched, extra=EXTRA_C13))
                return
            if not with_deadlock:
                # quick tier, 2 waiters: the safety / lost-wake-up query only; twin: some waiter completes within the bound
                r2, m2 = bmc.check(lambda S: z3.Or(*[z3.And(S.v["depth%d" % t] == 0, S.v["ready%d" % (t + 1)]) for t in range(nw)]), at="any", timeout_ms=600000)
                o.reach = "some waiter returns with its own reply on some schedule: %s" % r2
                if r2 != "sat":
                    raise HarnessError("reachability twin failed: %s" % r2)
                return
            # deadlock other than the C14 stall: nobody can move, some waiter has neither returned nor its result
            def dead(i):
                S = bmc.states[i]
                lacking = z3.Or(*[z3.And(S.v["depth%d" % t] != 0, z3.Not(S.v["ready%d" % (t + 1)])) for t in range(nw)])
                if bg:
                    # the real background thread never finishes: "nobody can move because its bounded iterations are
                    # used up" is an artefact of the bound, not a deadlock
                    return z3.And(bmc.noenabled[i], lacking, S.v["depth%d" % (model.T - 1)] != 0)
                return z3.And(bmc.noenabled[i], lacking)
            s = bmc._solver(1200000)
            for c in bmc.constraints:
                s.add(c)
            s.add(z3.Or(*[dead(i) for i in range(K)]))
            t0 = time.time()
            r = str(s.check())
            o.samples.append({"query": "reachable: nobody can move while a waiter still lacks its reply", "result": r, "solver_s": round(time.time() - t0, 1)})
            if r == "unknown":
                raise Unsupported("engine B: deadlock query unknown/timeout")
            if r == "sat":
                from engine.bmc import DictModel
                m = DictModel.from_model(s.model(), bmc)
                sched = sm.trace_of(prog, model, bmc, m)
                run.replay(o, "serve:deadlock:%dw%s" % (nw, "+bg" if bg else ""), "deadlock while a reply is outstanding; schedule: %s" % (sched[-12:],),
                           replay_script("C13", prog, model, sched, extra=EXTRA_C13))
                return
            if nw == 1:
                r2, m2 = bmc.check(model.all_done, at="any", timeout_ms=600000)
                o.reach = "all waiters return with their own reply on some schedule: %s" % r2
            else:
                # two complete hand-offs do not fit into the step bound under the pre-emption bound: the twin asks for one
                r2, m2 = bmc.check(lambda S: z3.Or(*[z3.And(S.v["depth%d" % t] == 0, S.v["ready%d" % (t + 1)]) for t in range(nw)]), at="any", timeout_ms=900000)
                o.reach = "some waiter returns with its own reply on some schedule: %s" % r2
            if r2 != "sat":
                raise HarnessError("reachability twin failed: %s" % r2)
        return ob
    for (nw, bg, mp, K_, dl) in configs:
        run.obligation("BMC_%dw%s%s" % (nw, "_bg" if bg else "", "_p%d" % mp if mp is not None else ""),
                       "%d waiter(s)%s: every frame dispatched once, every request gets its own reply, no lost wake-up%s" % (
                           nw, " + background thread" if bg else "", ", no deadlock" if dl else ""), mk(nw, bg, mp, K_, dl))
    run.extra = dict(states=max(1, stats[0]), transitions=max(1, stats[1]), traces_validated_against_impl=sum(
        1 for o in run.obligations for v in o.violations if v["reproduced"]),
        explanation="symbolic unrolling of %d statement-steps over all schedules within the stated pre-emption bound" % K)


EXTRA_C13 = '''
for i, res in enumerate(results):
    if i in outcome and not res._is_ready: bad.append("wait() of request %d returned without its reply" % (i + 1))
if len(conn._request_callbacks) + sum(1 for r in results if r._is_ready) != nwait: bad.append("a reply was delivered twice or lost")
if chan.inbox and not left and not stalls: bad.append("a reply sits in the inbox and nobody is receiving")
waiting_frames = [brine.load(f)[1] for f in chan.inbox]
for r in sorted(replied):
    if r not in waiting_frames and not results[r - 1]._is_ready:
        bad.append("the reply to request %d was received and dispatched, yet the request has not completed (the reply reached nobody)" % r)
'''


def main(pid):
    run = Run(pid, level="model_checking")
    run.assumptions = [
        "atomicity = one source statement; list/dict/Lock/Condition operations are atomic",
        "the peer only sends replies to outstanding requests, in any order, at any time",
        "timeouts never fire (a state that only a timeout can leave is a bad state); a zero timeout (BgServingThread.SERVE_INTERVAL) is non-blocking",
        "partial-order reduction: context switches are only considered before statements that touch shared state",
    ]
    run.outside = ["more threads/requests than the stated configurations", "incoming requests (nested serving) and EOF during receive (C11)"]
    if pid == "C14":
        check_c14(run)
    else:
        check_c13(run)
    sys.exit(run.finish())


if __name__ == "__main__":
    main("C14")
