"""Engine S: a path-forking symbolic interpreter over the Python AST.

The *real* functions of /repo/rpyc are loaded with inspect/ast at every run and
executed statement by statement.  Concrete operands are real CPython objects and
concrete calls run natively; any operation with a symbolic operand is evaluated
with solver terms, and a decision on a symbolic truth value forks the path
(engine/core.py).  Constructs outside the supported subset raise Unsupported,
which makes the run inconclusive -- never a verdict.
"""
import ast
import builtins
import hashlib
import inspect
import sys
import textwrap
import types

import z3

from . import values as V
from .core import ctx, Unsupported, BoundExceeded, PathAbort, HarnessError, Pruned
from .values import Sym, SymBool, SymInt, SymReal, SymStr

_MISSING = object()


class Env(object):
    __slots__ = ("vars", "parent", "globals", "nonlocals", "globalnames")

    def __init__(self, vars, parent, globals_):
        self.vars = vars
        self.parent = parent
        self.globals = globals_
        self.nonlocals = None
        self.globalnames = None

    def lookup(self, name, interp):
        e = self
        while e is not None:
            if name in e.vars:
                v = e.vars[name]
                if v is _MISSING:
                    raise UnboundLocalError(name)
                return v
            e = e.parent
        ov = interp.global_overrides.get(id(self.globals))
        if ov is not None and name in ov:
            return ov[name]
        if name in self.globals:
            return self.globals[name]
        try:
            return getattr(builtins, name)
        except AttributeError:
            raise NameError("name %r is not defined" % name)

    def store(self, name, value):
        if self.nonlocals and name in self.nonlocals:
            e = self.parent
            while e is not None:
                if name in e.vars:
                    e.vars[name] = value
                    return
                e = e.parent
        if self.globalnames and name in self.globalnames:
            self.globals[name] = value
            return
        self.vars[name] = value


class IFunc(object):
    """A function created by interpreted code (def/lambda inside an interpreted
    function or class body).  Callable from native code too."""

    def __init__(self, interp, node, env, name, defaults, kwdefaults, qualname=None):
        self.interp = interp
        self.node = node
        self.env = env
        self.__name__ = name
        self.__qualname__ = qualname or name
        self.defaults = defaults
        self.kwdefaults = kwdefaults
        self.__doc__ = ast.get_docstring(node) if not isinstance(node, ast.Lambda) else None
        self.__module__ = env.globals.get("__name__")
        self.__dict__["__wrapped_ifunc__"] = True

    def __call__(self, *args, **kwargs):
        return self.interp.call_ifunc(self, args, kwargs)

    def __get__(self, obj, cls=None):
        if obj is None:
            return self
        return types.MethodType(self, obj)


class Interp(object):
    def __init__(self, interpret_prefixes=("rpyc",), loop_bound=64, depth_bound=60):
        self.interpret_prefixes = tuple(interpret_prefixes)
        self.models = {}            # callable -> model(interp, *args, **kwargs)
        self.method_models = {}     # (type of __self__, method name) -> model(interp, self, *args)
        self.type_models = {}       # type -> model for calling the type
        self.global_overrides = {}  # id(module dict) -> {name: value}
        self.tolerant_prefixes = ("props", "specs", "engine", "__main__")   # harness code may receive symbolic values
        self.native = set()         # functions forced to run natively
        self.force_interp = set()   # functions forced to be interpreted
        self._ast_cache = {}
        self.encoded = {}           # qualified name -> dict(file, lines, sha256)
        self.loop_bound = loop_bound
        self.depth_bound = depth_bound
        self.sym_iter_bound = 3      # characters of a symbolic str that are enumerated when it is iterated
        self.on_bound = "raise"      # or "cut": paths needing more unwinding are cut and counted
        self.cuts = 0
        self.native_calls = None     # set() of qualified names of natively executed callees when enabled
        self.exc_stack = []
        self.control_exceptions = (PathAbort, BoundExceeded, Unsupported, HarnessError, Pruned)
        from . import models as M
        from . import rope as _rope
        M.install(self)
        _rope.ITER_INTERP[0] = self

    # ------------------------------------------------------------------ utils
    def bound_hit(self, msg):
        if self.on_bound == "cut":
            self.cuts += 1
            raise PathAbort()
        raise BoundExceeded(msg)

    def override_global(self, module, name, value):
        self.global_overrides.setdefault(id(module.__dict__), {})[name] = value

    def should_interpret(self, f):
        if self.native and f in self.native:
            return False
        if self.force_interp and f in self.force_interp:
            return True
        mod = getattr(f, "__module__", None) or ""
        return any(mod == p or mod.startswith(p + ".") for p in self.interpret_prefixes)

    def func_ast(self, f):
        code = f.__code__
        key = (code.co_filename, code.co_firstlineno, code.co_name)
        node = self._ast_cache.get(key)
        if node is None:
            try:
                src = inspect.getsource(f)
            except (OSError, TypeError) as e:
                raise Unsupported("no source for %r: %s" % (f, e))
            tree = ast.parse(textwrap.dedent(src))
            node = None
            if code.co_name == "<lambda>":
                for n in ast.walk(tree):
                    if isinstance(n, ast.Lambda):
                        node = n
                        break
            else:
                for n in ast.walk(tree):
                    if isinstance(n, (ast.FunctionDef,)) and n.name == code.co_name:
                        node = n
                        break
            if node is None:
                raise Unsupported("cannot locate AST of %r" % (f,))
            self._ast_cache[key] = node
            qn = "%s.%s" % (f.__module__, getattr(f, "__qualname__", f.__name__))
            nlines = src.count("\n")
            self.encoded[qn] = dict(file=code.co_filename, first_line=code.co_firstlineno,
                                    last_line=code.co_firstlineno + nlines - 1,
                                    sha256=hashlib.sha256(src.encode()).hexdigest()[:16])
        return node

    # ------------------------------------------------------------------ calls
    def call(self, f, args=(), kwargs=None):
        kwargs = kwargs or {}
        c = ctx()
        if getattr(f, "sym_model", False):
            return f(*args, **kwargs)
        m = self.find_model(f)
        if m is not None:
            return m(self, *args, **kwargs)
        if isinstance(f, IFunc):
            return self.call_ifunc(f, args, kwargs)
        if isinstance(f, types.MethodType):
            fn = f.__func__
            if isinstance(fn, IFunc) or (isinstance(fn, types.FunctionType) and self.should_interpret(fn)):
                return self.call(fn, (f.__self__,) + tuple(args), kwargs)
            mm = self.find_model(fn)
            if mm is not None:
                return mm(self, f.__self__, *args, **kwargs)
        if isinstance(f, types.FunctionType) and hasattr(f, "dispatch") and hasattr(f, "registry") and args:
            # functools.singledispatch: the implementation is chosen by the class of the first argument (MRO-aware)
            return self.call(f.dispatch(V.pytype_of(args[0])), args, kwargs)
        if isinstance(f, types.FunctionType) and self.should_interpret(f):
            return self.call_pyfunc(f, args, kwargs)
        if isinstance(f, type):
            return self.call_type(f, args, kwargs)
        if isinstance(f, (classmethod, staticmethod)):
            raise Unsupported("calling a raw classmethod/staticmethod object")
        if not isinstance(f, (types.BuiltinFunctionType, types.BuiltinMethodType, types.FunctionType, types.MethodType)):
            # an instance of a class whose __call__ is interpreted code
            for k in type(f).__mro__:
                d = k.__dict__.get("__call__")
                if d is not None:
                    if isinstance(d, IFunc) or (isinstance(d, types.FunctionType) and self.should_interpret(d)):
                        return self.call(d, (f,) + tuple(args), kwargs)
                    break
        # native call: only with concrete operands, except for callables that are
        # known not to inspect their operands
        if not self.tolerates_sym(f, args):
            self.require_concrete(f, args, kwargs)
        if self.native_calls is not None:
            self.native_calls.add("%s.%s" % (getattr(f, "__module__", None) or type(getattr(f, "__self__", None)).__name__,
                                             getattr(f, "__qualname__", None) or getattr(f, "__name__", repr(f))))
        return f(*args, **kwargs)

    TOLERANT_METHODS = {
        dict: {"update": None, "get": 0, "pop": 0, "setdefault": 0, "clear": None, "copy": None, "items": None,
               "keys": None, "values": None, "popitem": None},
        list: {"append": None, "extend": None, "pop": 0, "insert": 0, "clear": None, "copy": None, "reverse": None},
        set: {"clear": None, "copy": None},
    }

    def tolerates_sym(self, f, args):
        # BaseException.__new__ only stores its arguments (OSError.__new__, which parses them, is a different function)
        if getattr(f, "__name__", None) == "__new__" and args and isinstance(args[0], type) and issubclass(args[0], BaseException) \
                and not issubclass(args[0], (OSError, BaseExceptionGroup)) and "__new__" not in args[0].__dict__:
            return True
        mod = getattr(f, "__module__", None) or ""
        if any(mod == p or mod.startswith(p + ".") for p in self.tolerant_prefixes):
            return True
        fn = getattr(f, "__func__", None)
        if fn is not None:
            mod = getattr(fn, "__module__", None) or ""
            if any(mod == p or mod.startswith(p + ".") for p in self.tolerant_prefixes):
                return True
        s = getattr(f, "__self__", None)
        if s is not None and not isinstance(s, types.ModuleType):
            for t, tbl in self.TOLERANT_METHODS.items():
                if isinstance(s, t) and getattr(f, "__name__", None) in tbl:
                    k = tbl[f.__name__]
                    if k is not None and len(args) > k and (isinstance(args[k], Sym) or self.has_sym(args[k])):
                        return False
                    if f.__name__ == "update" and args and isinstance(args[0], dict) and any(isinstance(x, Sym) for x in args[0]):
                        return False
                    return True
        return False

    def find_model(self, f):
        # models are registered for functions / builtins / bound builtin methods only; never hash anything else
        # (hash(proxy) -- also via a weak reference or a bound method of a proxy -- is a remote call)
        if not isinstance(f, (types.FunctionType, types.BuiltinFunctionType, types.MethodType, types.MethodWrapperType,
                              types.MethodDescriptorType, types.WrapperDescriptorType)) and not issubclass(type(f), type):
            return None
        owner = f.__self__ if isinstance(f, types.MethodType) else None
        if owner is not None and not issubclass(type(owner), type) and (type(owner).__module__ or "").startswith("rpyc"):
            return None
        try:
            m = self.models.get(f)
        except TypeError:
            m = None
        if m is not None:
            return m
        s = getattr(f, "__self__", None)
        if s is not None and not isinstance(s, types.ModuleType):
            nm = getattr(f, "__name__", None)
            if type(s) is str and isinstance(f, types.BuiltinMethodType):
                from . import models as M
                fn = M._METHODS[str].get(nm)
                if fn is not None:
                    return lambda interp, *a, **k: (fn(s, *a, **k) if (any(isinstance(x, Sym) or interp.has_sym(x) for x in a)) else f(*a, **k))
            for t in type(s).__mro__:
                mm = self.method_models.get((t, nm))
                if mm is not None:
                    return lambda interp, *a, **k: mm(interp, s, *a, **k)
        return None

    def has_sym(self, v, depth=2):
        if isinstance(v, Sym):
            return True
        if depth and type(v) in (tuple, list, set, frozenset):
            return any(self.has_sym(x, depth - 1) for x in v)
        if depth and type(v) is dict:
            return any(self.has_sym(x, depth - 1) for x in v.values()) or any(isinstance(k, Sym) for k in v)
        return False

    def require_concrete(self, f, args, kwargs):
        for a in args:
            if self.has_sym(a):
                raise Unsupported("native call of %s with a symbolic argument (%s)" % (
                    getattr(f, "__qualname__", None) or getattr(f, "__name__", None) or f, type(a).__name__))
        for a in kwargs.values():
            if self.has_sym(a):
                raise Unsupported("native call of %r with a symbolic keyword argument" % (f,))

    def call_type(self, t, args, kwargs):
        m = self.type_models.get(t)
        if m is not None:
            return m(self, *args, **kwargs)
        mod = getattr(t, "__module__", "") or ""
        if any(mod == p or mod.startswith(p + ".") for p in self.interpret_prefixes) or \
                isinstance(t.__dict__.get("__init__"), IFunc) or isinstance(t.__dict__.get("__new__"), IFunc):
            new = inspect.getattr_static(t, "__new__")
            if isinstance(new, staticmethod):
                new = new.__func__
            if isinstance(new, IFunc) or (isinstance(new, types.FunctionType) and self.should_interpret(new)):
                obj = self.call(new, (t,) + tuple(args), kwargs)
            elif new is object.__new__:
                obj = object.__new__(t)
            else:
                try:
                    obj = t.__new__(t, *args, **kwargs)
                except TypeError:
                    obj = t.__new__(t)
            if isinstance(obj, t):
                init = None
                for k in t.__mro__:
                    if "__init__" in k.__dict__:
                        init = k.__dict__["__init__"]
                        break
                if isinstance(init, (types.FunctionType, IFunc)):
                    self.call(init, (obj,) + tuple(args), kwargs)
                elif init is not object.__init__ and init is not None:
                    self.require_concrete(t, args, kwargs)
                    init(obj, *args, **kwargs)
            return obj
        if issubclass(t, BaseException):
            # exception objects may carry symbolic arguments
            return t(*args, **kwargs)
        self.require_concrete(t, args, kwargs)
        return t(*args, **kwargs)

    def bind_args(self, argspec, defaults, kwdefaults, args, kwargs, fname):
        a = argspec
        vars = {}
        pos = [x.arg for x in a.posonlyargs] + [x.arg for x in a.args]
        args = list(args)
        npos = len(pos)
        if len(args) > npos and a.vararg is None:
            raise TypeError("%s() takes %d positional arguments but %d were given" % (fname, npos, len(args)))
        for name, val in zip(pos, args):
            vars[name] = val
        if a.vararg is not None:
            vars[a.vararg.arg] = tuple(args[npos:])
        kwargs = dict(kwargs)
        for name in pos[len(args):]:
            if name in kwargs:
                vars[name] = kwargs.pop(name)
        for name in pos[:len(args)]:
            if name in kwargs:
                raise TypeError("%s() got multiple values for argument %r" % (fname, name))
        ndef = len(defaults)
        for i, name in enumerate(pos):
            if name not in vars:
                j = i - (npos - ndef)
                if j >= 0:
                    vars[name] = defaults[j]
                else:
                    raise TypeError("%s() missing required positional argument: %r" % (fname, name))
        for x, d in zip(a.kwonlyargs, kwdefaults):
            if x.arg in kwargs:
                vars[x.arg] = kwargs.pop(x.arg)
            elif d is not _MISSING:
                vars[x.arg] = d
            else:
                raise TypeError("%s() missing required keyword-only argument: %r" % (fname, x.arg))
        if a.kwarg is not None:
            vars[a.kwarg.arg] = kwargs
        elif kwargs:
            raise TypeError("%s() got an unexpected keyword argument %r" % (fname, sorted(kwargs)[0]))
        return vars

    def call_pyfunc(self, f, args, kwargs):
        node = self.func_ast(f)
        defaults = f.__defaults__ or ()
        kwd = f.__kwdefaults__ or {}
        a = node.args
        kwdefaults = [kwd.get(x.arg, _MISSING) for x in a.kwonlyargs]
        vars = self.bind_args(a, defaults, kwdefaults, args, kwargs, f.__name__)
        parent = None
        if f.__closure__:
            cells = {}
            for name, cell in zip(f.__code__.co_freevars, f.__closure__):
                try:
                    cells[name] = cell.cell_contents
                except ValueError:
                    cells[name] = _MISSING
            parent = Env(cells, None, f.__globals__)
        env = Env(vars, parent, f.__globals__)
        return self.run_body(node, env, f.__name__)

    def call_ifunc(self, f, args, kwargs):
        vars = self.bind_args(f.node.args, f.defaults, f.kwdefaults, args, kwargs, f.__name__)
        env = Env(vars, f.env, f.env.globals)
        return self.run_body(f.node, env, f.__name__)

    def run_body(self, node, env, fname):
        c = ctx()
        if isinstance(node, ast.Lambda):
            return self.eval(node.body, env)
        c.depth += 1
        if c.depth > self.depth_bound:
            c.depth -= 1
            raise BoundExceeded("call depth bound %d exceeded in %s" % (self.depth_bound, fname))
        try:
            if _is_generator(node):
                return self._make_generator(node, env)
            saved = len(self.exc_stack)
            try:
                st = _drive(self.exec_block(node.body, env))
            finally:
                del self.exc_stack[saved:]
            if st is not None and st[0] == "return":
                return st[1]
            return None
        finally:
            c.depth -= 1

    def _make_generator(self, node, env):
        interp = self

        def gen():
            st = yield from interp.exec_block(node.body, env)
            return st[1] if st is not None and st[0] == "return" else None
        return gen()

    # -------------------------------------------------------------- statements
    # exec_* are generators so that `yield` statements of interpreted generator
    # functions can suspend; for ordinary functions they are driven to the end.
    def exec_block(self, stmts, env):
        for s in stmts:
            st = yield from self.exec_stmt(s, env)
            if st is not None:
                return st
        return None

    def exec_stmt(self, s, env):
        t = type(s)
        if t is ast.Expr:
            if isinstance(s.value, ast.Yield):
                sent = yield (self.eval(s.value.value, env) if s.value.value is not None else None)
                return None
            if isinstance(s.value, ast.YieldFrom):
                yield from self.eval(s.value.value, env)
                return None
            self.eval(s.value, env)
            return None
        if t is ast.Assign:
            if isinstance(s.value, ast.Yield):
                v = yield (self.eval(s.value.value, env) if s.value.value is not None else None)
            else:
                v = self.eval(s.value, env)
            for tgt in s.targets:
                self.assign(tgt, v, env)
            return None
        if t is ast.AugAssign:
            cur = self.eval(_load_of(s.target), env)
            v = self.binop(_BINOPS[type(s.op)], cur, self.eval(s.value, env), inplace=True)
            self.assign(s.target, v, env)
            return None
        if t is ast.AnnAssign:
            if s.value is not None:
                self.assign(s.target, self.eval(s.value, env), env)
            return None
        if t is ast.Return:
            return ("return", self.eval(s.value, env) if s.value is not None else None)
        if t is ast.If:
            if self.truth(self.eval(s.test, env)):
                return (yield from self.exec_block(s.body, env))
            return (yield from self.exec_block(s.orelse, env))
        if t is ast.While:
            n = 0
            while self.truth(self.eval(s.test, env)):
                n += 1
                if n > self.loop_bound:
                    self.bound_hit("while loop at line %d needs more than %d iterations" % (s.lineno, self.loop_bound))
                st = yield from self.exec_block(s.body, env)
                if st is not None:
                    if st[0] == "break":
                        return None
                    if st[0] == "continue":
                        continue
                    return st
            else:
                return (yield from self.exec_block(s.orelse, env))
            return None
        if t is ast.For:
            it = self.iterate(self.eval(s.iter, env))
            n = 0
            broke = False
            for item in it:
                n += 1
                if n > self.loop_bound:
                    self.bound_hit("for loop at line %d needs more than %d iterations" % (s.lineno, self.loop_bound))
                self.assign(s.target, item, env)
                st = yield from self.exec_block(s.body, env)
                if st is not None:
                    if st[0] == "break":
                        broke = True
                        break
                    if st[0] == "continue":
                        continue
                    return st
            if not broke:
                return (yield from self.exec_block(s.orelse, env))
            return None
        if t is ast.Try:
            return (yield from self.exec_try(s, env))
        if t is ast.With:
            return (yield from self.exec_with(s, 0, env))
        if t is ast.Raise:
            if s.exc is None:
                if not self.exc_stack:
                    raise RuntimeError("No active exception to reraise")
                raise self.exc_stack[-1]
            e = self.eval(s.exc, env)
            if isinstance(e, type):
                e = self.call(e, ())
            if s.cause is not None:
                raise e from self.eval(s.cause, env)
            raise e
        if t is ast.Pass:
            return None
        if t is ast.Break:
            return ("break",)
        if t is ast.Continue:
            return ("continue",)
        if t is ast.Delete:
            for tgt in s.targets:
                self.delete(tgt, env)
            return None
        if t is ast.Assert:
            if not self.truth(self.eval(s.test, env)):
                raise AssertionError(self.eval(s.msg, env) if s.msg is not None else None)
            return None
        if t is ast.FunctionDef:
            fn = self.make_func(s, env, s.name)
            for d in reversed(s.decorator_list):
                fn = self.call(self.eval(d, env), (fn,))
            env.store(s.name, fn)
            return None
        if t is ast.ClassDef:
            self.exec_classdef(s, env)
            return None
        if t is ast.Global:
            env.globalnames = (env.globalnames or set()) | set(s.names)
            return None
        if t is ast.Nonlocal:
            env.nonlocals = (env.nonlocals or set()) | set(s.names)
            return None
        if t in (ast.Import, ast.ImportFrom):
            ns = {}
            mod = ast.Module(body=[s], type_ignores=[])
            exec(compile(mod, "<interp-import>", "exec"), env.globals, ns)
            for k, v in ns.items():
                env.store(k, v)
            return None
        raise Unsupported("statement %s" % t.__name__)

    def exec_try(self, s, env):
        st = None
        control = False
        try:
            try:
                st = yield from self.exec_block(s.body, env)
            except GeneratorExit:
                raise
            except self.control_exceptions:
                # the explorer (or the environment model) is abandoning this execution: the code under test must not
                # get to run its handlers or finally blocks on the way out
                control = True
                raise
            except BaseException as e:
                handler = None
                for h in s.handlers:
                    if h.type is None:
                        handler = h
                        break
                    et = self.eval(h.type, env)
                    if isinstance(e, et):
                        handler = h
                        break
                if handler is None:
                    raise
                if handler.name:
                    env.store(handler.name, e)
                self.exc_stack.append(e)
                try:
                    st = yield from self.exec_block(handler.body, env)
                finally:
                    self.exc_stack.pop()
                    if handler.name:
                        env.vars.pop(handler.name, None)
            else:
                if st is None:
                    st = yield from self.exec_block(s.orelse, env)
        finally:
            if s.finalbody and not control:
                # run the finally body; a control transfer inside it overrides
                fst = _drive_nested(self, s.finalbody, env)
                if fst is not None:
                    return fst
        return st

    def exec_with(self, s, i, env):
        if i == len(s.items):
            return (yield from self.exec_block(s.body, env))
        item = s.items[i]
        mgr = self.eval(item.context_expr, env)
        enter = self.getattr_type(mgr, "__enter__")
        exit_ = self.getattr_type(mgr, "__exit__")
        val = self.call(enter, ())
        if item.optional_vars is not None:
            self.assign(item.optional_vars, val, env)
        try:
            st = yield from self.exec_with(s, i + 1, env)
        except (GeneratorExit,) + self.control_exceptions:
            raise
        except BaseException as e:
            self.exc_stack.append(e)
            try:
                sup = self.call(exit_, (type(e), e, e.__traceback__))
            finally:
                self.exc_stack.pop()
            if not self.truth(sup):
                raise
            return None
        self.call(exit_, (None, None, None))
        return st

    def getattr_type(self, obj, name):
        """special-method lookup (on the type, bound to the instance)"""
        for k in type(obj).__mro__:
            if name in k.__dict__:
                d = k.__dict__[name]
                if hasattr(d, "__get__"):
                    return d.__get__(obj, type(obj))
                return d
        raise AttributeError(name)

    def make_func(self, node, env, name):
        a = node.args
        defaults = tuple(self.eval(d, env) for d in a.defaults)
        kwdefaults = [self.eval(d, env) if d is not None else _MISSING for d in a.kw_defaults]
        return IFunc(self, node, env, name, defaults, kwdefaults)

    def exec_classdef(self, s, env):
        bases = tuple(self.eval(b, env) for b in s.bases)
        kw = dict((k.arg, self.eval(k.value, env)) for k in s.keywords)
        meta = kw.pop("metaclass", None)
        ns = {"__module__": env.globals.get("__name__"), "__qualname__": s.name}
        cenv = Env(ns, env, env.globals)
        st = _drive(self.exec_block(s.body, cenv))
        if meta is None:
            meta = type
            for b in bases:
                if issubclass(type(b), meta):
                    meta = type(b)
        cls = meta(s.name, bases, ns, **kw)
        for d in reversed(s.decorator_list):
            cls = self.call(self.eval(d, env), (cls,))
        env.store(s.name, cls)

    # ------------------------------------------------------------- assignment
    def assign(self, tgt, v, env):
        t = type(tgt)
        if t is ast.Name:
            env.store(tgt.id, v)
        elif t is ast.Attribute:
            obj = self.eval(tgt.value, env)
            self.setattr(obj, tgt.attr, v)
        elif t is ast.Subscript:
            obj = self.eval(tgt.value, env)
            key = self.eval_slice(tgt.slice, env)
            self.setitem(obj, key, v)
        elif t in (ast.Tuple, ast.List):
            items = self.unpack(v, len(tgt.elts), any(isinstance(e, ast.Starred) for e in tgt.elts))
            if any(isinstance(e, ast.Starred) for e in tgt.elts):
                k = [i for i, e in enumerate(tgt.elts) if isinstance(e, ast.Starred)][0]
                after = len(tgt.elts) - k - 1
                if len(items) < len(tgt.elts) - 1:
                    raise ValueError("not enough values to unpack")
                for e, x in zip(tgt.elts[:k], items[:k]):
                    self.assign(e, x, env)
                self.assign(tgt.elts[k].value, list(items[k:len(items) - after]), env)
                for e, x in zip(tgt.elts[k + 1:], items[len(items) - after:] if after else []):
                    self.assign(e, x, env)
            else:
                for e, x in zip(tgt.elts, items):
                    self.assign(e, x, env)
        else:
            raise Unsupported("assignment target %s" % t.__name__)

    def unpack(self, v, n, starred=False):
        h = getattr(v, "sym_unpack", None)
        if h is not None:
            return h(n, starred)
        if isinstance(v, Sym):
            if isinstance(v, SymStr):
                ln = z3.Length(v.e)
                if not starred and ctx().branch(ln == n, "unpack-len"):
                    return [V.wrap(z3.SubString(v.e, i, 1)) for i in range(n)]
                if starred:
                    raise Unsupported("starred unpacking of symbolic str")
                raise ValueError("wrong number of values to unpack")
            raise TypeError("cannot unpack non-iterable %s object" % v.pytype.__name__)
        items = list(self.iterate(v))
        if not starred and len(items) != n:
            raise ValueError("too many values to unpack (expected %d)" % n if len(items) > n
                             else "not enough values to unpack (expected %d, got %d)" % (n, len(items)))
        return items

    def delete(self, tgt, env):
        t = type(tgt)
        if t is ast.Name:
            if tgt.id in env.vars:
                del env.vars[tgt.id]
            else:
                raise NameError(tgt.id)
        elif t is ast.Attribute:
            obj = self.eval(tgt.value, env)
            self.delattr(obj, tgt.attr)
        elif t is ast.Subscript:
            obj = self.eval(tgt.value, env)
            key = self.eval_slice(tgt.slice, env)
            h = getattr(obj, "sym_delitem", None)
            if h is not None:
                return h(key)
            if isinstance(key, Sym):
                key = self.dict_key(obj, key)
            del obj[key]
        elif t in (ast.Tuple, ast.List):
            for e in tgt.elts:
                self.delete(e, env)
        else:
            raise Unsupported("del target %s" % t.__name__)

    # ------------------------------------------------------------ expressions
    def eval(self, n, env):
        m = getattr(self, "ev_" + type(n).__name__, None)
        if m is None:
            raise Unsupported("expression %s" % type(n).__name__)
        return m(n, env)

    def ev_Constant(self, n, env):
        return n.value

    def ev_Name(self, n, env):
        return env.lookup(n.id, self)

    def ev_Tuple(self, n, env):
        return tuple(self._elts(n.elts, env))

    def ev_List(self, n, env):
        return list(self._elts(n.elts, env))

    def ev_Set(self, n, env):
        return set(self._elts(n.elts, env))

    def _elts(self, elts, env):
        out = []
        for e in elts:
            if isinstance(e, ast.Starred):
                out.extend(self.iterate(self.eval(e.value, env)))
            else:
                out.append(self.eval(e, env))
        return out

    def ev_Dict(self, n, env):
        d = {}
        for k, v in zip(n.keys, n.values):
            if k is None:
                d.update(self.eval(v, env))
            else:
                d[self.eval(k, env)] = self.eval(v, env)
        return d

    def ev_BoolOp(self, n, env):
        is_and = isinstance(n.op, ast.And)
        v = None
        for i, e in enumerate(n.values):
            v = self.eval(e, env)
            if i == len(n.values) - 1:
                return v
            t = self.truth(v)
            if is_and and not t:
                return v
            if not is_and and t:
                return v
        return v

    def ev_UnaryOp(self, n, env):
        v = self.eval(n.operand, env)
        op = {ast.Not: "not", ast.USub: "-", ast.UAdd: "+", ast.Invert: "~"}[type(n.op)]
        if op == "not":
            if isinstance(v, Sym):
                return V.unaryop("not", v)
            return not self.truth(v)
        return V.unaryop(op, v)

    def ev_BinOp(self, n, env):
        return self.binop(_BINOPS[type(n.op)], self.eval(n.left, env), self.eval(n.right, env))

    def binop(self, op, a, b, inplace=False):
        if isinstance(a, Sym) or isinstance(b, Sym):
            return V.binop(op, a, b)
        if op == "%" and type(a) is str and self.has_sym(b):
            return V.str_format(a, b)
        if op == "+" and type(a) in (tuple, list) and type(b) is type(a):
            return a + b
        if inplace:
            return _INPLACE[op](a, b)
        return V._PYOPS[op](a, b)

    def ev_Compare(self, n, env):
        left = self.eval(n.left, env)
        result = True
        for op, rn in zip(n.ops, n.comparators):
            right = self.eval(rn, env)
            r = self.compare_op(op, left, right)
            if len(n.ops) == 1:
                return r
            if not self.truth(r):
                return r
            result = r
            left = right
        return result

    def compare_op(self, op, a, b):
        t = type(op)
        if t is ast.Is:
            return self.is_(a, b)
        if t is ast.IsNot:
            return not self.is_(a, b)
        if t is ast.In:
            return self.contains(b, a)
        if t is ast.NotIn:
            r = self.contains(b, a)
            return V.unaryop("not", r) if isinstance(r, Sym) else (not r)
        ops = {ast.Eq: "==", ast.NotEq: "!=", ast.Lt: "<", ast.LtE: "<=", ast.Gt: ">", ast.GtE: ">="}[t]
        if isinstance(a, Sym) or isinstance(b, Sym):
            return V.compare(ops, a, b)
        if self.has_sym(a) or self.has_sym(b):
            return self.deep_compare(ops, a, b)
        return V.compare(ops, a, b)

    def deep_compare(self, op, a, b):
        """== / != on concrete containers with symbolic leaves"""
        if op not in ("==", "!="):
            raise Unsupported("ordering of containers with symbolic members")
        eq = self.deep_eq(a, b)
        return eq if op == "==" else (V.unaryop("not", eq) if isinstance(eq, Sym) else (not eq))

    def deep_eq(self, a, b):
        if isinstance(a, Sym) or isinstance(b, Sym):
            return V.compare("==", a, b)
        if type(a) in (tuple, list) and type(b) is type(a):
            if len(a) != len(b):
                return False
            conj = []
            for x, y in zip(a, b):
                r = self.deep_eq(x, y)
                if r is False:
                    return False
                if r is not True:
                    conj.append(V.truth_term(r))
            return V.wrap(z3.And(*conj)) if conj else True
        if self.has_sym(a) or self.has_sym(b):
            if type(a) is not type(b) and not (isinstance(a, (int, float)) and isinstance(b, (int, float))):
                return False
            raise Unsupported("equality of %s with symbolic members" % type(a).__name__)
        return a == b

    def is_(self, a, b):
        if isinstance(a, Sym) or isinstance(b, Sym):
            if a is b:
                return True
            # a symbolic bool compared by identity with True/False/None
            for x, y in ((a, b), (b, a)):
                if isinstance(x, SymBool) and type(y) is bool:
                    return V.wrap(x.e == y)
            if isinstance(a, Sym) and isinstance(b, Sym):
                if type(a) is SymBool and type(b) is SymBool:
                    return V.wrap(a.e == b.e)
                raise Unsupported("identity of two symbolic values")
            return False
        return a is b

    def contains(self, container, item):
        h = getattr(container, "sym_contains", None)
        if h is not None:
            return h(item)
        d = self.dunder(container, "__contains__")
        if d is not None:
            return self.call(d, (container, item))
        if isinstance(container, SymStr) or (type(container) is str and isinstance(item, SymStr)):
            if V.pytype_of(item) is not str:
                raise TypeError("'in <string>' requires string as left operand")
            return V.wrap(z3.Contains(V.term(container), V.term(item)))
        if isinstance(item, Sym) or self.has_sym(item):
            if isinstance(container, (set, frozenset, dict, tuple, list)) or type(container) is type({}.keys()):
                iv = self._int_view(item, container)
                if iv is not None:
                    t, ints = iv
                    return V.wrap(_intervals(t, ints))
                disj = []
                for x in container:
                    r = self.deep_eq(item, x)
                    if r is True:
                        return True
                    if r is not False:
                        disj.append(V.truth_term(r))
                return V.wrap(z3.Or(*disj)) if disj else False
            raise Unsupported("membership of a symbolic value in %s" % type(container).__name__)
        if isinstance(container, (tuple, list)) and self.has_sym(container):
            disj = []
            for x in container:
                r = self.deep_eq(item, x)
                if r is True:
                    return True
                if r is not False:
                    disj.append(V.truth_term(r))
            return V.wrap(z3.Or(*disj)) if disj else False
        return item in container

    def ev_IfExp(self, n, env):
        if self.truth(self.eval(n.test, env)):
            return self.eval(n.body, env)
        return self.eval(n.orelse, env)

    def ev_Lambda(self, n, env):
        return self.make_func(n, env, "<lambda>")

    def ev_Attribute(self, n, env):
        return self.getattr(self.eval(n.value, env), n.attr)

    def ev_Subscript(self, n, env):
        obj = self.eval(n.value, env)
        key = self.eval_slice(n.slice, env)
        return self.getitem(obj, key)

    def eval_slice(self, sl, env):
        if isinstance(sl, ast.Slice):
            return slice(self.eval(sl.lower, env) if sl.lower is not None else None,
                         self.eval(sl.upper, env) if sl.upper is not None else None,
                         self.eval(sl.step, env) if sl.step is not None else None)
        return self.eval(sl, env)

    def ev_Slice(self, n, env):
        return self.eval_slice(n, env)

    def ev_JoinedStr(self, n, env):
        parts = []
        for v in n.values:
            if isinstance(v, ast.Constant):
                parts.append(v.value)
            else:
                x = self.eval(v.value, env)
                if isinstance(x, Sym) or self.has_sym(x):
                    return SymStr(ctx().fresh_str("fstr"))
                parts.append(format(x, self.eval(v.format_spec, env) if v.format_spec else ""))
        return "".join(parts)

    def ev_Starred(self, n, env):
        raise Unsupported("starred expression outside call/display")

    def _comp(self, gens, env, i):
        if i == len(gens):
            yield env
            return
        g = gens[i]
        it = self.iterate(self.eval(g.iter, env))
        n = 0
        for item in it:
            n += 1
            if n > self.loop_bound:
                self.bound_hit("comprehension at line %d needs more than %d iterations" % (g.iter.lineno, self.loop_bound))
            self.assign(g.target, item, env)
            if all(self.truth(self.eval(c, env)) for c in g.ifs):
                yield from self._comp(gens, env, i + 1)

    def ev_GeneratorExp(self, n, env):
        cenv = Env({}, env, env.globals)
        # the outermost iterable is evaluated eagerly, as CPython does
        first = n.generators[0]
        outer = self.eval(first.iter, env)
        interp = self

        def gen():
            gens = list(n.generators)
            it = interp.iterate(outer)
            k = 0
            for item in it:
                k += 1
                if k > interp.loop_bound:
                    interp.bound_hit("generator expression at line %d needs more than %d iterations" % (n.lineno, interp.loop_bound))
                interp.assign(first.target, item, cenv)
                if all(interp.truth(interp.eval(c, cenv)) for c in first.ifs):
                    for e in interp._comp(gens, cenv, 1):
                        yield interp.eval(n.elt, e)
        return gen()

    def ev_ListComp(self, n, env):
        cenv = Env({}, env, env.globals)
        return [self.eval(n.elt, e) for e in self._comp(n.generators, cenv, 0)]

    def ev_SetComp(self, n, env):
        cenv = Env({}, env, env.globals)
        return set(self.eval(n.elt, e) for e in self._comp(n.generators, cenv, 0))

    def ev_DictComp(self, n, env):
        cenv = Env({}, env, env.globals)
        return dict((self.eval(n.key, e), self.eval(n.value, e)) for e in self._comp(n.generators, cenv, 0))

    def ev_Call(self, n, env):
        f = self.eval(n.func, env)
        args = []
        for a in n.args:
            if isinstance(a, ast.Starred):
                args.extend(self.iterate(self.eval(a.value, env)))
            else:
                args.append(self.eval(a, env))
        kwargs = {}
        for k in n.keywords:
            if k.arg is None:
                kwargs.update(self.eval(k.value, env))
            else:
                kwargs[k.arg] = self.eval(k.value, env)
        if f is super and not args:
            # zero-argument super(): first local of the enclosing function + its class
            raise Unsupported("zero-argument super()")
        return self.call(f, args, kwargs)

    # ------------------------------------------------------- object protocol
    def truth(self, v):
        if isinstance(v, Sym):
            return ctx().branch(V.truth_term(v), "truth")
        return bool(v)

    def iterate(self, v):
        h = getattr(v, "sym_iter", None)
        if h is not None:
            return h()
        if isinstance(v, Sym):
            if isinstance(v, SymStr):
                return self._iter_symstr(v)
            raise TypeError("%r object is not iterable" % v.pytype.__name__)
        return iter(v)

    def _iter_symstr(self, v):
        """characters of a symbolic str, unrolled under the loop bound"""
        i = 0
        ln = z3.Length(v.e)
        while ctx().branch(ln > i, "str-iter"):
            if i >= self.sym_iter_bound:
                # longer texts are cut (counted): unpacking a peer-chosen text character by character is uniform in its length
                self.cuts += 1
                raise PathAbort()
            yield V.wrap(z3.SubString(v.e, i, 1))
            i += 1

    def dunder(self, obj, name):
        """interpreted special method of a concrete instance (classes of the code under test), or None"""
        if isinstance(obj, (Sym, type)) or type(obj).__module__ in ("builtins",):
            return None
        for k in type(obj).__mro__:
            d = k.__dict__.get(name)
            if d is not None:
                if isinstance(d, IFunc) or (isinstance(d, types.FunctionType) and self.should_interpret(d)):
                    return d
                return None
        return None

    def getattr(self, obj, name):
        h = getattr(type(obj), "sym_getattr", None)
        if h is not None:
            return h(obj, self, name)
        if isinstance(obj, Sym):
            from . import models as M
            return M.sym_method(self, obj, name)
        # properties of interpreted classes are interpreted too
        if not isinstance(obj, type):
            for k in type(obj).__mro__:
                d = k.__dict__.get(name, _MISSING)
                if d is not _MISSING:
                    if isinstance(d, property) and d.fget is not None and (
                            isinstance(d.fget, IFunc) or (isinstance(d.fget, types.FunctionType) and self.should_interpret(d.fget))):
                        return self.call(d.fget, (obj,))
                    break
        return getattr(obj, name)

    def setattr(self, obj, name, v):
        h = getattr(type(obj), "sym_setattr", None)
        if h is not None:
            return h(obj, self, name, v)
        setattr(obj, name, v)

    def delattr(self, obj, name):
        h = getattr(type(obj), "sym_delattr", None)
        if h is not None:
            return h(obj, self, name)
        delattr(obj, name)

    def dict_key(self, d, key):
        """resolve a symbolic key against the concrete keys of a mapping: forks
        over the feasible keys; raises KeyError on the 'none of them' branch."""
        keys = list(d.keys()) if hasattr(d, "keys") else list(d)
        conds = []
        for k in keys:
            r = self.deep_eq(key, k)
            conds.append(z3.BoolVal(r) if isinstance(r, bool) else V.truth_term(r))
        none = z3.Not(z3.Or(*conds)) if conds else z3.BoolVal(True)
        i = ctx().decide(conds + [none], "dict-key")
        if i == len(keys):
            raise KeyError(key)
        return keys[i]

    def _int_view(self, key, keys):
        """(Int term of key, list of int images of `keys`) when the key is a
        symbolic int or a symbolic single byte and all keys are ints / single
        bytes; None otherwise"""
        from .rope import Rope, byte_term
        keys = list(keys)
        if not keys:
            return None
        if isinstance(key, SymInt) and all(type(k) is int for k in keys):
            return key.e, keys
        if isinstance(key, Rope) and all(type(k) is bytes and len(k) == 1 for k in keys):
            n = z3.simplify(key.length_term())
            if z3.is_int_value(n) and n.as_long() == 1:
                return byte_term(key), [k[0] for k in keys]
        return None

    def dict_lookup(self, d, key):
        """d[key] for a concrete dict and a symbolic key.  When all values are
        ints (or single bytes) the result is one merged ite-term; otherwise the
        path forks over the feasible keys."""
        vals = list(d.values())
        iv = self._int_view(key, d.keys())
        if iv is not None and vals and (all(type(v) is int for v in vals) or all(type(v) is bytes and len(v) == 1 for v in vals)):
            t, ints = iv
            if ctx().branch(z3.Not(_intervals(t, ints)), "dict-miss"):
                raise KeyError(key)
            as_int = [v if type(v) is int else v[0] for v in vals]
            deltas = set(v - k for k, v in zip(ints, as_int))
            if len(deltas) == 1:
                e = t + deltas.pop()
            else:
                e = z3.IntVal(as_int[-1])
                for k, v in zip(reversed(ints[:-1]), reversed(as_int[:-1])):
                    e = z3.If(t == k, z3.IntVal(v), e)
            if type(vals[0]) is int:
                return V.wrap(e)
            from .rope import Rope, Field
            return Rope((Field(1, z3.simplify(e)),)).maybe_concrete()
        if vals and (all(type(v) is int for v in vals) or all(type(v) is bytes and len(v) == 1 for v in vals)):
            keys = list(d.keys())
            conds = []
            for k in keys:
                r = self.deep_eq(key, k)
                conds.append(z3.BoolVal(r) if isinstance(r, bool) else V.truth_term(r))
            if ctx().branch(z3.Not(z3.Or(*conds)), "dict-miss"):
                raise KeyError(key)
            as_int = [v if type(v) is int else v[0] for v in vals]
            e = z3.IntVal(as_int[-1])
            for cnd, v in zip(reversed(conds[:-1]), reversed(as_int[:-1])):
                e = z3.If(cnd, z3.IntVal(v), e)
            if type(vals[0]) is int:
                return V.wrap(e)
            from .rope import Rope, Field
            return Rope((Field(1, z3.simplify(e)),)).maybe_concrete()
        return d[self.dict_key(d, key)]

    def getitem(self, obj, key):
        h = getattr(obj, "sym_getitem", None)
        if h is not None:
            return h(key)
        d = self.dunder(obj, "__getitem__")
        if d is not None:
            return self.call(d, (obj, key))
        if isinstance(obj, Sym):
            if isinstance(obj, SymStr):
                from . import models as M
                return M.str_getitem(self, obj, key)
            raise TypeError("%r object is not subscriptable" % obj.pytype.__name__)
        if isinstance(key, Sym):
            if isinstance(obj, dict):
                return self.dict_lookup(obj, key)
            if isinstance(obj, (tuple, list)) and isinstance(key, SymInt):
                n = len(obj)
                conds = [key.e == i for i in range(n)] + [key.e == i - n for i in range(n)]
                oob = z3.Or(key.e >= n, key.e < -n)
                i = ctx().decide(conds + [oob], "index")
                if i == 2 * n:
                    raise IndexError("index out of range")
                return obj[i % n]
            if type(obj) is str:
                from . import models as M
                return M.str_getitem(self, SymStr(V.term(obj)), key)
            raise Unsupported("subscript of %s with symbolic key" % type(obj).__name__)
        if type(key) is slice and (isinstance(key.start, Sym) or isinstance(key.stop, Sym)):
            if type(obj) is str:
                from . import models as M
                return M.str_getitem(self, SymStr(V.term(obj)), key)
            raise Unsupported("slice of %s with symbolic bounds" % type(obj).__name__)
        if type(key) is tuple and self.has_sym(key) and isinstance(obj, dict):
            return obj[self.dict_key(obj, key)]
        return obj[key]

    def setitem(self, obj, key, v):
        h = getattr(obj, "sym_setitem", None)
        if h is not None:
            return h(key, v)
        d = self.dunder(obj, "__setitem__")
        if d is not None:
            return self.call(d, (obj, key, v))
        if isinstance(key, Sym) or (type(key) is tuple and self.has_sym(key)):
            if isinstance(obj, dict):
                try:
                    k = self.dict_key(obj, key)
                except KeyError:
                    raise Unsupported("insertion of a new symbolic key into a concrete dict")
                obj[k] = v
                return
            raise Unsupported("store with symbolic key into %s" % type(obj).__name__)
        obj[key] = v


def _intervals(t, ints):
    """t in ints, as a disjunction of intervals"""
    xs = sorted(set(ints))
    parts = []
    i = 0
    while i < len(xs):
        j = i
        while j + 1 < len(xs) and xs[j + 1] == xs[j] + 1:
            j += 1
        parts.append(t == xs[i] if i == j else z3.And(t >= xs[i], t <= xs[j]))
        i = j + 1
    return z3.Or(*parts) if len(parts) != 1 else parts[0]


def _is_generator(node):
    for n in _walk_func(node):
        if isinstance(n, (ast.Yield, ast.YieldFrom)):
            return True
    return False


def _walk_func(node):
    """walk a function body without descending into nested functions/classes"""
    stack = list(node.body) if not isinstance(node, ast.Lambda) else [node.body]
    while stack:
        n = stack.pop()
        yield n
        for c in ast.iter_child_nodes(n):
            if isinstance(c, (ast.FunctionDef, ast.AsyncFunctionDef, ast.Lambda, ast.ClassDef)):
                continue
            stack.append(c)


def _drive(gen):
    """run a statement generator of a non-generator function to completion"""
    try:
        next(gen)
    except StopIteration as e:
        return e.value
    raise Unsupported("yield outside of a generator function")


def _drive_nested(interp, stmts, env):
    return _drive(interp.exec_block(stmts, env))


def _load_of(tgt):
    import copy
    t = copy.copy(tgt)
    t.ctx = ast.Load()
    return t


_BINOPS = {ast.Add: "+", ast.Sub: "-", ast.Mult: "*", ast.FloorDiv: "//", ast.Mod: "%",
           ast.BitOr: "|", ast.BitAnd: "&", ast.BitXor: "^", ast.Div: "/", ast.Pow: "**",
           ast.LShift: "<<", ast.RShift: ">>", ast.MatMult: "@"}

import operator as _op
_INPLACE = {"+": _op.iadd, "-": _op.isub, "*": _op.imul, "//": _op.ifloordiv, "%": _op.imod,
            "|": _op.ior, "&": _op.iand, "^": _op.ixor, "/": _op.itruediv, "**": _op.ipow,
            "<<": _op.ilshift, ">>": _op.irshift, "@": _op.imatmul}
