"""Live demonstration (real sockets, no model) for property C17: with an authenticator that hands back a NEW socket object
that has taken over the connection (what ssl wrapping does: SSLSocket is created from sock.detach()), the socket the server
tracks is only the detached shell -- does close() still terminate the client?

usage: PYTHONPATH=<rpyc tree> /venv/bin/python c17_wrapping_authenticator.py [threaded|pool]
exit 1 + REPRODUCED when the connected client is not terminated by close() / its disconnect hook does not run.
"""
import os, sys, socket, time, threading, logging
sys.path.insert(0, os.environ.get("VERIF_REPO", "/repo"))
import rpyc
from rpyc.utils.server import ThreadedServer, ThreadPoolServer

kind = sys.argv[1] if len(sys.argv) > 1 else "threaded"
logging.disable(logging.CRITICAL)
hooks = []


def wrapping_authenticator(sock):
    # exactly what ssl.SSLContext.wrap_socket does with the plain socket: a new object owns the descriptor
    new = socket.socket(fileno=sock.detach())
    return new, "user"


class Svc(rpyc.Service):
    def on_disconnect(self, conn):
        hooks.append(1)

    def exposed_ping(self):
        return "pong"


cls = {"threaded": ThreadedServer, "pool": ThreadPoolServer}[kind]
srv = cls(Svc, hostname="127.0.0.1", port=0, auto_register=False, authenticator=wrapping_authenticator)
srv._start_in_thread()
conn = rpyc.connect("127.0.0.1", srv.port, config=dict(sync_request_timeout=5))
assert conn.root.ping() == "pong"
closer = threading.Thread(target=srv.close)
closer.daemon = True
closer.start()
closer.join(5)
sock = conn._channel.stream.sock
sock.settimeout(3)
eof = False
try:
    while True:
        if sock.recv(4096) == b"":
            eof = True
            break
except socket.timeout:
    eof = False
except OSError:
    eof = True
time.sleep(0.2)
print("close() returned:", not closer.is_alive(), "| client observed end-of-stream within 3 s:", eof, "| disconnect hooks run:", len(hooks))
if not eof or not hooks:
    print("REPRODUCED")
    os._exit(1)
os._exit(0)
