"""Deterministic schedule replayer: real threads on the real code, parked at every
line event of the encoded functions (sys.settrace) and at explicit points of the
harness's own transport, released one at a time in a prescribed order.
Runs under /venv's interpreter too (no dependency on z3)."""
import sys
import threading
import time


class Mismatch(Exception):
    pass


class Gate(object):
    def __init__(self, gated, timeout=10.0):
        """gated: dict code object -> set of line numbers to park at"""
        self.gated = gated
        self.timeout = timeout
        self.cv = threading.Condition()
        self.parked = {}        # tid -> position (lineno or label)
        self.grant = {}         # tid -> bool
        self.done = {}          # tid -> outcome
        self.tids = {}          # thread ident -> tid
        self.trace = []         # (tid, position) in the order released
        self.free_run = False
        self._last = {}

    # -- called on the worker threads ------------------------------------------
    def _tracer(self, frame, event, arg):
        if frame.f_code in self.gated:
            return self._local
        return None

    def _local(self, frame, event, arg):
        if event == "line":
            key = id(frame)
            ln = frame.f_lineno
            # CPython reports some statements twice in a row (e.g. `x = a() and b()` when the right operand
            # is evaluated): a statement is one location, so an immediate repeat is not a new parking point
            if self._last.get(key) == ln:
                return self._local
            self._last[key] = ln
            if ln in self.gated[frame.f_code]:
                self.point(ln)
        elif event == "return":
            self._last.pop(id(frame), None)
        return self._local

    def point(self, position):
        """park the calling thread at `position` until the scheduler releases it"""
        if self.free_run:
            return None
        tid = self.tids.get(threading.get_ident())
        if tid is None:
            return None
        with self.cv:
            self.parked[tid] = position
            self.grant[tid] = None
            self.cv.notify_all()
            t0 = time.time()
            while self.grant[tid] is None:
                self.cv.wait(0.05)
                if self.free_run:
                    break
                if time.time() - t0 > self.timeout * 6:
                    raise Mismatch("thread %d parked at %r was never released" % (tid, position))
            g = self.grant[tid]
            self.parked.pop(tid, None)
            return g

    def _run(self, tid, fn):
        self.tids[threading.get_ident()] = tid
        sys.settrace(self._tracer)
        try:
            out = ("ok", fn())
        except BaseException as e:
            out = ("exc", e)
        finally:
            sys.settrace(None)
        with self.cv:
            self.done[tid] = out
            self.cv.notify_all()

    # -- scheduler side -----------------------------------------------------------
    def start(self, fns):
        self.threads = []
        for tid, fn in enumerate(fns):
            t = threading.Thread(target=self._run, args=(tid, fn))
            t.daemon = True
            self.threads.append(t)
            t.start()
        for tid in range(len(fns)):
            self.wait_settled(tid)

    def wait_settled(self, tid):
        """wait until thread tid is parked or finished; returns its position or None"""
        with self.cv:
            t0 = time.time()
            while tid not in self.parked and tid not in self.done:
                self.cv.wait(0.05)
                if time.time() - t0 > self.timeout:
                    raise Mismatch("thread %d neither parked nor finished (blocked in real code?)" % tid)
            return self.parked.get(tid)

    def position(self, tid):
        with self.cv:
            return self.parked.get(tid) if tid not in self.done else None

    def release(self, tid, grant=True, settle=True):
        with self.cv:
            if tid not in self.parked:
                raise Mismatch("thread %d is not parked" % tid)
            self.trace.append((tid, self.parked[tid]))
            del self.parked[tid]
            self.grant[tid] = grant
            self.cv.notify_all()
        if settle:
            return self.wait_settled(tid)
        return None

    def finish(self):
        """let everything run freely to the end"""
        self.free_run = True
        with self.cv:
            for tid in list(self.parked):
                self.grant[tid] = True
            self.cv.notify_all()
        for t in self.threads:
            t.join(self.timeout)
        return dict(self.done)

    def runnable(self):
        with self.cv:
            return sorted(self.parked)
