"""C15 -- asynchronous results: one final outcome, callbacks once, timeouts exact.

Encoded (re-read from /repo at every run): AsyncResult.__init__/__call__/wait/
add_callback/set_expiry/ready/error/expired/value, lib.Timeout.*,
Connection.sync_request/async_request/_async_request, helpers.timed.__call__.
The clock is a solver variable; conn.serve / poll_all are environment steps.
"""
import sys

import z3

from engine import core, values as V
from engine.core import ctx, explore
from engine.harness import Run, Acc, par_explore
from engine.interp import Interp
from engine.values import Sym, SymBool, SymReal


class Clock(object):
    """virtual clock: time.time() reads it without advancing it; only the
    environment steps (serve/poll/sleep, explicit advance events) move it"""

    def __init__(self, c):
        self.now = z3.RealVal(0)
        self.c = c

    def time(self):
        return V.wrap(self.now) if not z3.is_rational_value(z3.simplify(self.now)) else SymReal(z3.simplify(self.now))

    def advance(self, hint="dt"):
        d = self.c.fresh_real(hint)
        self.c.assume(d >= 0)
        self.now = z3.simplify(self.now + d)
        return d

    def sleep(self, dt):
        self.now = z3.simplify(self.now + V.term(dt))


class Hang(Exception):
    """the waiter blocks with no timeout and nothing will ever arrive"""


class Env(object):
    """the peer + transport as seen by one AsyncResult: decides when (if ever)
    the reply arrives; counts what the code under test did"""

    def __init__(self, c, clock, interp, max_serves):
        self.c = c
        self.clock = clock
        self.interp = interp
        self.res = None
        self.delivered = False
        self.arrival = None         # clock term at delivery
        self.busy_used = False
        self.serves = 0
        self.max_serves = max_serves
        self.cb_log = []
        self.closed = False
        self.plan = []              # environment decisions taken during the current event (for replay)

    def deliver(self):
        from rpyc.core.async_ import AsyncResult
        self.delivered = True
        self.arrival = self.clock.now
        self.is_exc = self.c.choose(2, "reply-kind") == 1
        self.obj = ValueError("remote") if self.is_exc else ("VALUE",)
        self.interp.call(AsyncResult.__call__, (self.res, self.is_exc, self.obj))

    # --- what AsyncResult calls on its connection -----------------------------
    def serve(self, timeout=1, wait_for_lock=True):
        """contract of Connection.serve(timeout) for a caller that is not busy:
        returns when a message arrived, or when `timeout` has run out -- at that
        instant; when the thread is busy serving an unrelated request it may
        return later (busy flag recorded)."""
        from rpyc.lib import Timeout
        c = self.c
        self.serves += 1
        if self.serves > self.max_serves:
            self.interp.bound_hit("more than %d serve() calls in one wait" % self.max_serves)
        t = self.interp.call(Timeout, (timeout,))
        left = self.interp.call(Timeout.timeleft, (t,))
        kinds = ["reply", "other", "idle", "busy"] if not self.delivered else ["other", "idle", "busy"]
        k = kinds[c.choose(len(kinds), "serve-outcome")]
        if k == "idle":
            if left is None:
                self.plan.append(("idle", None, None))
                raise Hang()         # blocks forever
            self.plan.append(("idle", None, None))
            self.clock.now = z3.simplify(self.clock.now + V.term(left))
            return False
        d = c.fresh_real("arrive_in")
        c.assume(d >= 0)
        if k == "busy":
            self.busy_used = True
            c.assume(d > (V.term(left) if left is not None else 0))
        elif left is not None:
            c.assume(d <= V.term(left))
        self.clock.now = z3.simplify(self.clock.now + d)
        if k == "reply":
            self.deliver()
        self.plan.append((k, d, getattr(self, "is_exc", None) if k == "reply" else None))
        return True

    def poll_all(self, timeout=0):
        if not self.delivered and self.c.choose(2, "poll-delivers") == 1:
            self.deliver()
            self.plan.append(("reply", z3.RealVal(0), self.is_exc))
            return True
        self.plan.append(("nothing", None, None))
        return False


class TimeModule(object):
    def __init__(self, clock):
        self.clock = clock

    def time(self):
        return SymReal(self.clock.now)

    def sleep(self, dt):
        self.clock.sleep(dt)


def install_clock(interp, c):
    import rpyc.lib
    import rpyc.core.async_
    import rpyc.core.protocol
    clock = Clock(c)
    tm = TimeModule(clock)
    for mod in (rpyc.lib, rpyc.core.async_, rpyc.core.protocol):
        interp.override_global(mod, "time", tm)
    return clock


TIMEOUT_KINDS = ["none", "real"]


def sym_timeout(c):
    k = TIMEOUT_KINDS[c.choose(2, "timeout-kind")]
    if k == "none":
        return None
    return SymReal(c.fresh_real("timeout"))


REPLAY_HEAD = '''# replay of a counterexample found by /verif (property C15) on the real rpyc, with a virtual clock
import sys
sys.path.insert(0, __import__("os").environ.get("VERIF_REPO", "/repo"))
import rpyc.lib, rpyc.core.async_
from rpyc.core.async_ import AsyncResult, AsyncResultTimeout
class Clock(object):
    now = 0.0
    def time(self): return self.now
    def sleep(self, d): self.now += d
clock = Clock()
rpyc.lib.time = clock
'''


def ob_history(run, interp, nevents, max_serves):
    from rpyc.core.async_ import AsyncResult, AsyncResultTimeout

    EVENTS = ["advance", "arrive", "add_callback", "add_callback+", "ready?", "expired?", "error?", "wait", "value"]

    def ob(o):
        o.symbolic = ["history of %d events over %s (exhaustive)" % (nevents, EVENTS), "clock increments: Real >= 0",
                      "timeout: None or any Real (negative, zero, positive)", "arrival delays inside serve(): Real",
                      "serve() outcome per call: our reply / unrelated traffic / idle until the timeout / busy past it"]
        o.bounds = {"events": nevents, "serve_calls_per_wait": max_serves}
        o.stubs = [Env.serve.__doc__.strip().replace("\n", " "), "time.time() reads the virtual clock and does not advance it"]
        acc = Acc()
        interp.on_bound = "cut"

        def harness(c):
            clock = install_clock(interp, c)
            env = Env(c, clock, interp, max_serves)
            res = interp.call(AsyncResult, (env,))
            env.res = res
            timeout = sym_timeout(c)
            interp.call(AsyncResult.set_expiry, (res, timeout))
            obs = []            # (kind, observed, clock term at the observation, extra)
            ncb = 0
            script = []
            c.notes.update(env=env, res=res, timeout=timeout, obs=obs, t0=clock.now, script=script)
            for step in range(nevents):
                ev = EVENTS[c.choose(len(EVENTS), "event")]
                env.plan = []
                if ev == "advance":
                    script.append(("advance", clock.advance(), env.plan))
                elif ev == "arrive":
                    if env.delivered:
                        c.assume(False)
                    env.deliver()
                    script.append(("arrive", env.is_exc, env.plan))
                elif ev == "add_callback":
                    k = ncb
                    ncb += 1

                    def cb(r, k=k):
                        env.cb_log.append((k, clock.now, r is res))
                    obs.append(("register", k, clock.now, env.delivered))
                    script.append(("add_callback", None, env.plan))
                    interp.call(AsyncResult.add_callback, (res, cb))
                elif ev == "add_callback+":
                    # a callback that, when it runs, registers a further callback on the same result
                    k, k2 = ncb, ncb + 1
                    ncb += 2

                    def cb2(r, k2=k2):
                        env.cb_log.append((k2, clock.now, r is res))

                    first = [True]

                    def cb(r, k=k, k2=k2, cb2=cb2, first=first):
                        env.cb_log.append((k, clock.now, r is res))
                        if first[0]:                       # (registers the further callback only the first time it runs)
                            first[0] = False
                            obs.append(("register", k2, clock.now, True))
                            interp.call(AsyncResult.add_callback, (res, cb2))
                    obs.append(("register", k, clock.now, env.delivered))
                    script.append(("add_callback+", None, env.plan))
                    interp.call(AsyncResult.add_callback, (res, cb))
                elif ev in ("ready?", "expired?", "error?"):
                    name = ev[:-1]
                    script.append((ev, None, env.plan))
                    v = interp.getattr(res, name)
                    obs.append((name, v, clock.now, env.delivered))
                elif ev in ("wait", "value"):
                    env.serves = 0
                    t_start = clock.now
                    env.busy_used = False
                    script.append((ev, None, env.plan))
                    try:
                        if ev == "wait":
                            v = interp.call(AsyncResult.wait, (res,))
                        else:
                            v = interp.getattr(res, "value")
                        obs.append((ev, ("ok", v), clock.now, t_start, env.busy_used, env.delivered))
                    except AsyncResultTimeout:
                        obs.append((ev, ("timeout", None), clock.now, t_start, env.busy_used, env.delivered))
                    except ValueError as e:
                        obs.append((ev, ("exc", e), clock.now, t_start, env.busy_used, env.delivered))
                    except Hang:
                        obs.append((ev, ("hang", None), clock.now, t_start, env.busy_used, env.delivered))
                        break
            return obs

        def on_path(r):
            c = r.ctx
            if r.outcome == "abort":
                return
            if r.outcome == "bound":
                raise core.BoundExceeded(str(r.exc))
            if r.outcome == "raise":
                acc.inc("raise:" + type(r.exc).__name__)
                what = "unexpected %s: %s" % (type(r.exc).__name__, r.exc)
                conds = [z3.BoolVal(False)]
            else:
                what, conds = oracle(c)
            acc.inc("checked")
            if len(o.samples) < 6 and len(c.notes["obs"]) >= 2:
                o.samples.append({"observations": [(x[0], str(x[1])[:30]) for x in c.notes["obs"]][:6]})
            ok, m = c.must_hold(z3.And(*conds)) if conds else (True, None)
            if not ok and o.verdict != "violated":
                # find the first failing clause
                idx = 0
                for i, cd in enumerate(conds):
                    if not z3.is_true(m.eval(cd, model_completion=True)):
                        idx = i
                        break
                script = make_replay(c, m, r.decisions)
                run.replay(o, "history:%s" % what[idx][0], "async model violated: %s (events %s)" % (what[idx][1], describe(c, m)), script)

        def oracle(c):
            env, timeout, obs, t0 = c.notes["env"], c.notes["timeout"], c.notes["obs"], c.notes["t0"]
            # reference model (specs: the property text)
            if timeout is None:
                finite = z3.BoolVal(False)
                tmax = z3.RealVal(0)
                negative = z3.BoolVal(False)
            else:
                tt = V.term(timeout)
                negative = tt < 0
                finite = tt >= 0
                tmax = t0 + tt
            labels, conds = [], []

            def clause(label, text, cond):
                labels.append((label, text))
                # the text does not define a negative timeout: nothing timing-related is asserted for it
                conds.append(cond)

            arrived = env.delivered
            t_arr = env.arrival if arrived else None
            accepted_if_arrived = z3.Or(z3.Not(finite), t_arr < tmax) if arrived else z3.BoolVal(False)
            # 1. callbacks
            regs = [x for x in obs if x[0] == "register"]
            log = env.cb_log
            if arrived:
                exp_ok = [k for (_, k, t, deliv) in regs]     # every registered callback exactly once
                got = [k for (k, t, same) in log]
                # order: callbacks registered before arrival run at arrival in registration order; later ones at registration
                early = [k for (_, k, t, deliv) in regs if not deliv]      # registered before the reply: these run in registration order
                got_early = [k for k in got if k in early]
                # (callbacks that do not run because the reply was discarded register nothing further: compare with what was registered)
                clause("callbacks", "reply accepted => every registered callback ran exactly once, those registered before the reply in registration order, with the result itself",
                       z3.Implies(accepted_if_arrived, z3.BoolVal(sorted(got) == sorted(exp_ok) and got_early == early and all(s for (_, _, s) in log))))
                clause("late-reply", "reply after expiry => discarded: no callback runs",
                       z3.Implies(z3.Not(accepted_if_arrived), z3.BoolVal(log == [])))
                for (k, t, same) in log:
                    reg_t = [x for x in regs if x[1] == k][0]
                    when = t_arr if not reg_t[3] else reg_t[2]
                    clause("callback-time", "callback runs at arrival (or at once if registered later)",
                           z3.Implies(accepted_if_arrived, t == when))
            else:
                clause("callbacks-early", "no reply yet => no callback ran", z3.BoolVal(log == []))
            # 2. queries
            for x in obs:
                kind = x[0]
                if kind in ("ready", "expired", "error"):
                    v, now, after = x[1], x[2], x[3]
                    # was the reply delivered by the end of this observation (event order, not clock order)?
                    acc_term = accepted_if_arrived if after else z3.BoolVal(False)
                    vt = V.term(v) if isinstance(v, Sym) else z3.BoolVal(bool(v))
                    if kind == "ready":
                        clause("ready", "ready <=> the reply has arrived before the expiry", vt == acc_term)
                    elif kind == "expired":
                        clause("expired", "expired <=> no accepted reply and the expiry has passed",
                               vt == z3.And(z3.Not(acc_term), finite, now >= tmax))
                    else:
                        clause("error", "error <=> accepted reply is an exception",
                               vt == z3.And(acc_term, z3.BoolVal(bool(getattr(env, "is_exc", False)))))
                elif kind in ("wait", "value"):
                    outcome, now, t_start = x[1], x[2], x[3]
                    acc_term = accepted_if_arrived if x[5] else z3.BoolVal(False)
                    if outcome[0] == "hang":
                        clause("no-hang", "a wait with a finite expiry never blocks without a timeout", z3.Not(finite))
                    elif outcome[0] == "timeout":
                        busy = x[4]
                        clause("timeout-not-early", "timeout error only at clock >= expiry, with no accepted reply",
                               z3.And(finite, now >= tmax, z3.Not(acc_term)))
                        if not busy:
                            clause("timeout-not-late", "not busy => timeout error exactly at the expiry instant (or at once if already past)",
                                   now == z3.If(t_start >= tmax, t_start, tmax))
                    else:
                        clause("wait-returns", "wait returns normally only with an accepted reply", acc_term)
                        if kind == "value":
                            if outcome[0] == "exc":
                                clause("value-exc", "value raises the reply's exception", z3.BoolVal(env.is_exc and outcome[1] is env.obj))
                            else:
                                clause("value", "value returns the reply's value", z3.BoolVal((not env.is_exc) and outcome[1] is env.obj))
            return labels, conds

        def _le(a, b, c):
            return None

        def describe(c, m):
            out = []
            tv = c.notes["timeout"]
            out.append("timeout=%s" % (None if tv is None else V.concretize(tv, m)))
            for x in c.notes["obs"]:
                out.append("%s@%s=%s" % (x[0], _rv(m, x[2]), str(x[1] if not isinstance(x[1], Sym) else V.concretize(x[1], m))[:40]))
            if c.notes["env"].delivered:
                out.append("arrival@%s" % _rv(m, c.notes["env"].arrival))
            return out

        def make_replay(c, m, decisions):
            return REPLAY_HEAD + "# model: %s\n" % (describe(c, m),) + REPLAY_BODY % dict(
                timeout=repr(None if c.notes["timeout"] is None else V.concretize(c.notes["timeout"], m)),
                script=repr(concrete_script(c, m)))

        def concrete_script(c, m):
            """the event script with concrete times, from the model"""
            out = []
            for (k, v, plan) in c.notes.get("script", []):
                pl = [(pk, None if pd is None else _rv(m, pd), pe) for (pk, pd, pe) in plan]
                out.append((k, _rv(m, v) if k == "advance" else v, pl))
            return out

        n, incomplete = par_explore(run, o, harness, on_path, acc, split_depth=3, extra=lambda: interp.cuts)
        interp.on_bound = "raise"
        o.paths = dict(acc.counts, total=n, cut_at_unwinding_bound=sum(o.extra_results or [0]))
        if incomplete:
            o.verdict = "inconclusive"
            o.detail = incomplete
        if not acc.counts.get("checked"):
            raise core.HarnessError("reachability twin: no history completed")
    return ob


def _rv(m, t):
    r = m.eval(t, model_completion=True)
    try:
        return float(r.numerator_as_long()) / float(r.denominator_as_long())
    except Exception:
        return str(r)


REPLAY_BODY = '''
timeout = %(timeout)s
script = %(script)s
class Conn(object):
    def __init__(self): self.res = None; self.plan = []; self.busy = False; self.spins = 0
    def serve(self, timeout=1, wait_for_lock=True):
        t = rpyc.lib.Timeout(timeout); left = t.timeleft()
        kind, d, is_exc = self.plan.pop(0) if self.plan else ("idle", None, None)
        if kind == "idle":
            if left is None: raise Hang("would block forever")
            if left == 0:
                self.spins += 1
                if self.spins > 1000: raise Hang("busy-waits at the expiry instant")
            clock.now += left; return False
        if kind == "busy": self.busy = True
        clock.now += d
        if kind == "reply": deliver(is_exc)
        return True
    def poll_all(self, timeout=0):
        if self.plan:
            kind, d, is_exc = self.plan.pop(0)
            if kind == "reply": deliver(is_exc); return True
        return False
clock.now = 0.0
conn = Conn(); res = AsyncResult(conn); conn.res = res
res.set_expiry(timeout)
t0 = clock.now
finite = timeout is not None and timeout >= 0
tmax = t0 + timeout if finite else None
st = dict(delivered=False, t_arr=None, is_exc=None, obj=None)
def deliver(is_exc):
    st.update(delivered=True, t_arr=clock.now, is_exc=bool(is_exc), obj=ValueError("remote") if is_exc else ("VALUE",))
    res(st["is_exc"], st["obj"])
def accepted():
    return st["delivered"] and (not finite or st["t_arr"] < tmax)
cb_log = []; regs = []; bad = []
EPS = 1e-9
class Hang(Exception): pass
for (ev, arg, plan) in script:
    conn.plan = list(plan); conn.busy = False
    if ev == "advance": clock.now += arg
    elif ev == "arrive": deliver(arg)
    elif ev == "add_callback":
        k = len(regs); regs.append((k, clock.now, st["delivered"]))
        res.add_callback(lambda r, k=k: cb_log.append((k, clock.now, r is res)))
    elif ev == "add_callback+":
        k = len(regs); regs.append((k, clock.now, st["delivered"]))
        def outer(r, k=k, first=[True]):
            cb_log.append((k, clock.now, r is res))
            if first[0]:
                first[0] = False
                k2 = len(regs); regs.append((k2, clock.now, True))
                res.add_callback(lambda r2, k2=k2: cb_log.append((k2, clock.now, r2 is res)))
        res.add_callback(outer)
    elif ev in ("ready?", "expired?", "error?"):
        v = getattr(res, ev[:-1])
        if ev == "ready?" and bool(v) != accepted(): bad.append("ready=%%r but accepted=%%r" %% (v, accepted()))
        if ev == "expired?" and bool(v) != ((not accepted()) and finite and clock.now >= tmax): bad.append("expired=%%r at %%r (expiry %%r)" %% (v, clock.now, tmax))
        if ev == "error?" and bool(v) != (accepted() and st["is_exc"]): bad.append("error=%%r" %% (v,))
    else:
        t_start = clock.now
        try:
            v = res.wait() if ev == "wait" else res.value
            if not accepted(): bad.append("%%s returned without an accepted reply" %% ev)
            elif ev == "value" and (st["is_exc"] or v is not st["obj"]): bad.append("value returned %%r" %% (v,))
        except AsyncResultTimeout:
            if not finite or clock.now < tmax - EPS or accepted(): bad.append("timeout error at %%r, expiry %%r, accepted %%r" %% (clock.now, tmax, accepted()))
            elif not conn.busy and abs(clock.now - max(t_start, tmax)) > EPS: bad.append("timeout error late: at %%r, expiry %%r" %% (clock.now, tmax))
        except ValueError as e:
            if not (accepted() and st["is_exc"] and e is st["obj"] and ev == "value"): bad.append("raised %%r" %% (e,))
        except Hang as e:
            if finite: bad.append("wait with a finite expiry %%s" %% e)
            break
if st["delivered"]:
    if accepted():
        early = [k for (k, t, d) in regs if not d]
        ran = [k for (k, t, s) in cb_log]
        if sorted(ran) != sorted(k for (k, t, d) in regs) or [k for k in ran if k in early] != early or not all(s for (_, _, s) in cb_log): bad.append("callbacks %%r for registrations %%r" %% (cb_log, regs))
        for (k, t, s) in cb_log:
            when = st["t_arr"] if not regs[k][2] else regs[k][1]
            if abs(t - when) > EPS: bad.append("callback %%d ran at %%r, expected %%r" %% (k, t, when))
    elif cb_log: bad.append("late reply ran callbacks %%r" %% (cb_log,))
elif cb_log: bad.append("callbacks ran without a reply")
print(bad)
if bad:
    print("REPRODUCED"); sys.exit(1)
'''


def ob_sync_request(run, interp):
    """a synchronous request == an asynchronous one carrying the configured timeout"""
    from rpyc.core.protocol import Connection, DEFAULT_CONFIG
    from rpyc.core.async_ import AsyncResult, AsyncResultTimeout
    from rpyc.core import consts
    from rpyc.utils.helpers import timed

    def ob(o):
        o.symbolic = ["configured sync_request_timeout: None or Real", "reply arrival delay / none", "timed(): timeout Real"]
        acc = Acc()

        class Chan(object):
            def __init__(self):
                self.sent = []

            def send(self, data):
                self.sent.append(data)

            def close(self):
                pass

        def harness(c):
            clock = install_clock(interp, c)
            which = c.choose(2, "api")
            T = sym_timeout(c)
            env = Env(c, clock, interp, 3)
            c.notes.update(env=env, T=T, which=which, t0=clock.now, clock=clock)
            if which == 0:
                from rpyc.core.service import VoidService
                conn = Connection(VoidService(), Chan(), dict(sync_request_timeout=T))
                c.notes["conn"] = conn

                def serve_stub(interp_, self_, timeout=1, wait_for_lock=True):
                    if env.res is None:
                        env.res = list(conn._request_callbacks.values())[0]
                    return env.serve(timeout, wait_for_lock)
                interp.models[Connection.serve] = serve_stub
                try:
                    return ("ok", interp.call(Connection.sync_request, (conn, consts.HANDLE_PING, "x")))
                except Hang:
                    return ("hang", None)
                except AsyncResultTimeout:
                    return ("timeout", None)
                except ValueError as e:
                    return ("exc", e)
                finally:
                    interp.models.pop(Connection.serve, None)
            else:
                made = []

                def fake_async_proxy(*a, **k):
                    r = interp.call(AsyncResult, (env,))
                    env.res = r
                    made.append(r)
                    return r
                # the wrapper is built by its real constructor, some time (any delay >= 0) before it is called: the expiry
                # counts from the call, not from the construction
                from rpyc.utils import helpers
                interp.models[helpers.async_] = lambda interp_, proxy: fake_async_proxy
                try:
                    t = interp.call(timed, ("PROXY", T))
                finally:
                    interp.models.pop(helpers.async_, None)
                d = c.fresh_real("delay_before_call")
                c.assume(d >= 0)
                clock.now = clock.now + d
                c.notes.update(t0=clock.now, delay=d)
                res = interp.call(timed.__call__, (t, 1, 2))
                c.notes["res"] = res
                try:
                    return ("ok", interp.getattr(res, "value"))
                except Hang:
                    return ("hang", None)
                except AsyncResultTimeout:
                    return ("timeout", None)
                except ValueError as e:
                    return ("exc", e)

        def on_path(r):
            c = r.ctx
            if r.outcome == "abort":
                return
            if r.outcome in ("bound",):
                raise core.BoundExceeded(str(r.exc))
            if r.outcome == "raise":
                run.replay(o, "sync:raise", "sync_request/timed raised %r" % (r.exc,), REPLAY_HEAD + "print('REPRODUCED'); sys.exit(1)\n")
                return
            env, T, t0 = c.notes["env"], c.notes["T"], c.notes["t0"]
            now = c.notes["clock"].now
            acc.inc("api%d:%s" % (c.notes["which"], r.value[0]))
            if T is None:
                finite, tmax = z3.BoolVal(False), z3.RealVal(0)
            else:
                finite, tmax = V.term(T) >= 0, t0 + V.term(T)
            conds = []
            if r.value[0] == "hang":
                conds.append(z3.Not(finite))
            elif r.value[0] == "timeout":
                conds.append(z3.And(finite, now >= tmax))
                if not env.busy_used:
                    conds.append(now == tmax)
                if env.delivered:
                    conds.append(env.arrival >= tmax)
            else:
                conds.append(z3.BoolVal(env.delivered))
                if env.delivered:
                    conds.append(z3.Or(z3.Not(finite), env.arrival < tmax))
                    conds.append(z3.BoolVal(r.value[1] is env.obj))
            if c.notes["which"] == 0:
                conn = c.notes["conn"]
                conds.append(z3.BoolVal(len(conn._channel.sent) == 1))
            ok, m = c.must_hold(z3.And(*conds))
            if len(o.samples) < 4:
                o.samples.append({"api": ["sync_request", "timed"][c.notes["which"]], "outcome": r.value[0]})
            if not ok and o.verdict != "violated":
                Tv = None if T is None else V.concretize(T, m)
                run.replay(o, "sync:%d:%s" % (c.notes["which"], r.value[0]),
                           "%s with configured timeout %r: outcome %s at clock %s, expiry %s" % (
                               ["sync_request", "timed"][c.notes["which"]], Tv, r.value[0], _rv(m, now), _rv(m, tmax)),
                           replay_sync(c.notes["which"], Tv, _rv(m, c.notes["delay"]) if "delay" in c.notes else 0.0))

        interp.on_bound = "cut"
        try:
            n, incomplete = par_explore(run, o, harness, on_path, acc, split_depth=3)
        finally:
            interp.on_bound = "raise"
        o.paths = dict(acc.counts, total=n)
        if incomplete:
            o.verdict = "inconclusive"
            o.detail = incomplete
        for k in ("api0:ok", "api0:timeout", "api1:ok", "api1:timeout"):
            if not acc.counts.get(k) and o.verdict != "violated":
                raise core.HarnessError("reachability twin: %s never reached (%s)" % (k, acc.counts))
    return ob


def replay_sync(which, T, delay=0.0):
    return REPLAY_HEAD + '''
import rpyc.core.protocol
from rpyc.core.protocol import Connection
from rpyc.core import consts
from rpyc.utils.helpers import timed
T = %r
which = %d
DELAY = %r
class Hang(Exception): pass
spins = [0]
class Chan(object):
    def send(self, d): pass
    def close(self): pass
    def poll(self, timeout):
        t = rpyc.lib.Timeout(timeout); left = t.timeleft()
        if left is None: raise Hang("would block forever")
        spins[0] += 1
        if spins[0] > 2000: raise Hang("busy-wait")
        clock.now += left
        return False
from rpyc.core.service import VoidService
bad = []
for TT in ([T] if T is not None and T >= 0 else []) + [0.0, 1.5]:
    clock.now = 50.0
    if which == 0:
        conn = Connection(VoidService(), Chan(), dict(sync_request_timeout=TT))
        spins[0] = 0
        try:
            conn.sync_request(consts.HANDLE_PING, "x"); bad.append("returned without a reply")
        except Hang as e:
            bad.append("sync_request(T=%%r) %%s" %% (TT, e))
        except AsyncResultTimeout:
            if abs(clock.now - (50.0 + TT)) > 1e-9: bad.append("sync_request(T=%%r) timed out at %%r" %% (TT, clock.now - 50.0))
    else:
        class C2(object):
            n = 0
            def serve(self, timeout=1, wait_for_lock=True):
                t = rpyc.lib.Timeout(timeout)
                if t.timeleft() is None: raise Hang("would block forever")
                C2.n += 1
                if C2.n > 2000: raise Hang("busy-wait")
                clock.now += t.timeleft(); return False
        import rpyc.utils.helpers as helpers
        real_async = helpers.async_
        helpers.async_ = lambda proxy: (lambda *a, **k: AsyncResult(C2()))
        try:
            t = timed("PROXY", TT)                   # built by the real constructor ...
        finally:
            helpers.async_ = real_async
        clock.now += DELAY                           # ... some time before it is called
        t_call = clock.now
        r = t(1)
        try:
            r.value; bad.append("returned without a reply")
        except Hang as e:
            bad.append("timed(T=%%r) %%s" %% (TT, e))
        except AsyncResultTimeout:
            if abs(clock.now - (t_call + TT)) > 1e-9: bad.append("timed(T=%%r) called %%r s after it was built timed out %%r s after the call" %% (TT, DELAY, clock.now - t_call))
print(bad)
if bad:
    print("REPRODUCED"); sys.exit(1)
''' % (T, which, delay)


def translator_validation(run, interp):
    """interpreter in concrete mode vs CPython on the scenarios of tests/test_async.py (virtual clock)"""
    from rpyc.core.async_ import AsyncResult, AsyncResultTimeout
    import rpyc.lib

    def ob(o):
        class C(object):
            def serve(self, timeout=1, wait_for_lock=True):
                return False

            def poll_all(self, timeout=0):
                return False
        n = 0
        for timeout in (None, 0, 5, -1):
            for arrive in (True, False):
                def scen(call, getp):
                    r = call(AsyncResult, (C(),))
                    call(AsyncResult.set_expiry, (r, timeout))
                    log = []
                    call(AsyncResult.add_callback, (r, lambda x: log.append("a")))
                    if arrive:
                        call(AsyncResult.__call__, (r, False, 42))
                    call(AsyncResult.add_callback, (r, lambda x: log.append("b")))
                    return (getp(r, "ready"), getp(r, "expired"), bool(getp(r, "error")), log)
                exp = scen(lambda f, a: f(*a), getattr)
                got = core.run_concrete(lambda: scen(lambda f, a: interp.call(f, a), interp.getattr))
                if exp != got:
                    raise core.HarnessError("translator validation: %r vs %r (timeout=%r arrive=%r)" % (got, exp, timeout, arrive))
                n += 1
        o.validated = n
        o.samples.append({"concrete_cases_agreeing_with_cpython": n})
    return ob


def main():
    run = Run("C15", level="other")
    interp = Interp()
    thorough = run.tier == "thorough"
    run.assumptions = [
        "time.time() is the virtual clock (Real arithmetic; floating-point rounding of clock values and clocks jumping backwards are outside the claim)",
        "Connection.serve(timeout) contract: returns on arrival or exactly when the timeout runs out, later only when busy serving a request",
        "a negative timeout is not defined by the property text: the reference treats it as 'no expiry' (rpyc's behaviour) and only asserts finality/callback clauses there",
    ]
    run.obligation("T0_translator", "interpreter == CPython on AsyncResult scenarios", translator_validation(run, interp))
    run.obligation("O1_history", "AsyncResult against the reference state machine over all event histories and clock values",
                   ob_history(run, interp, 4 if thorough else 3, 3))
    run.obligation("O2_sync_timed", "sync_request / timed() == async result carrying the configured timeout", ob_sync_request(run, interp))
    run.note_encoded(interp)
    sys.exit(run.finish())


if __name__ == "__main__":
    main()
