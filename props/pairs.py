"""Real-vs-real connection pairs over thread-safe in-memory pipes (pure Python: usable from replay scripts
under the repository's own interpreter)."""
import queue
import threading

# ---------------------------------------------------------------------------
# real-vs-real pairs over thread-safe in-memory pipes (native execution)
# ---------------------------------------------------------------------------

class PipeChannel(object):
    def __init__(self, rx, tx, log=None, name=""):
        self.rx, self.tx = rx, tx
        self.closed = False
        self.log = log
        self.name = name
        self.pending = None

    def send(self, data):
        if self.closed:
            raise EOFError("closed")
        if self.log is not None:
            self.log.append((self.name, bytes(data)))
        self.tx.put(bytes(data))

    def poll(self, timeout):
        from rpyc.lib import Timeout
        if self.pending is not None:
            return True
        t = Timeout(timeout).timeleft()
        try:
            item = self.rx.get(True, t) if (t is None or t > 0) else self.rx.get(False)
        except queue.Empty:
            return False
        if item is None:
            self.closed = True
            raise EOFError("peer closed")
        self.pending = item
        return True

    def recv(self):
        if self.pending is None:
            self.poll(None)
        d, self.pending = self.pending, None
        return d

    def close(self):
        if not self.closed:
            self.closed = True
            self.tx.put(None)

    def fileno(self):
        return 9


class Pair(object):
    """two real Connections; side B is served by a background thread"""

    def __init__(self, service_a=None, service_b=None, config_a=None, config_b=None):
        from rpyc.core.protocol import Connection
        from rpyc.core.service import VoidService
        qa, qb = queue.Queue(), queue.Queue()
        self.log = []
        self.a = Connection(service_a or VoidService(), PipeChannel(qa, qb, self.log, "a"), dict(config_a or {}, sync_request_timeout=20))
        self.b = Connection(service_b or VoidService(), PipeChannel(qb, qa, self.log, "b"), dict(config_b or {}, sync_request_timeout=20))
        self.thread = threading.Thread(target=self._serve)
        self.thread.daemon = True
        self.thread.start()

    def _serve(self):
        try:
            self.b.serve_all()
        except Exception:
            pass

    def close(self):
        try:
            self.a.close()
        except Exception:
            pass
        self.thread.join(5)
        try:
            self.b.close()
        except Exception:
            pass
