#!/bin/bash
# usage: tools/mutant.sh <name> <property> <python-snippet-file-or-sed-script...>
# Creates a scratch worktree of /repo under /tmp/mut_<name>, applies the patch given on stdin (git apply) and runs
# the property's quick check against it (VERIF_REPO), then removes the worktree.  /repo itself is never touched.
name=$1; prop=$2
wt=/tmp/mut_$name
git -C /repo worktree remove --force $wt 2>/dev/null; rm -rf $wt
git -C /repo worktree add -q --detach $wt HEAD || exit 9
if ! git -C $wt apply --whitespace=nowarn - ; then echo "patch failed"; git -C /repo worktree remove --force $wt; exit 9; fi
cd /verif
VERIF_REPO=$wt PYTHONPATH=$wt timeout ${TMO:-3000} ./check $prop quick 2>&1 | grep -E "VIOLATION|what:|NOT-OK|OK tier|INCONCLUSIVE|HARNESS|KNOWN" | head -${LINES_OUT:-4} | cut -c1-400
git -C /repo worktree remove --force $wt; git -C /repo worktree prune
