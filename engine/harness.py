"""Check driver support: obligations, verdicts, replay, evidence, exit codes.

exit 0  every obligation held within its bounds (known findings are printed as
        KNOWN-FINDING lines and do not fail the check)
exit 1  a counterexample that REPRODUCED on the real code, not listed in
        known_findings.json: prints `VIOLATION property=<id> replay=<path>`
exit 2  inconclusive (solver unknown/timeout, unwinding bound too small,
        construct outside the interpreter subset): prints INCONCLUSIVE, never
        VIOLATION
exit 3  harness error (translator validation or replay mismatch)
"""
import json
import os
import re
import subprocess
import sys
import time
import traceback

from . import core
from .core import Unsupported, HarnessError

ROOT = os.path.dirname(os.path.dirname(os.path.abspath(__file__)))
EVID = os.path.join(ROOT, "evidence")
REPLAYS = os.path.join(EVID, "replays")
if os.path.realpath(os.environ.get("VERIF_REPO", "/repo")) != "/repo":
    # a relocated run (a seeded change in a scratch worktree) must not overwrite the evidence of /repo itself
    EVID = os.path.join("/tmp", "verif-scratch-evidence")
    os.makedirs(EVID, exist_ok=True)
REAL_PY = "/venv/bin/python"


def tier():
    t = os.environ.get("VERIF_TIER", "quick")
    for a in sys.argv[1:]:
        if a in ("quick", "thorough"):
            t = a
        if a.startswith("--tier="):
            t = a.split("=", 1)[1]
    return t if t in ("quick", "thorough") else "quick"


def seed():
    try:
        return int(os.environ.get("VERIF_SEED", "0"))
    except ValueError:
        return 0


def load_known():
    p = os.path.join(ROOT, "known_findings.json")
    if not os.path.exists(p):
        return []
    with open(p) as f:
        d = json.load(f)
    return d.get("findings", [])


class Obligation(object):
    def __init__(self, name, desc):
        self.name = name
        self.desc = desc
        self.verdict = None           # holds | violated | inconclusive | error
        self.detail = ""
        self.paths = {}
        self.bounds = {}
        self.symbolic = []
        self.stubs = []
        self.samples = []
        self.stats = None
        self.wall_s = 0.0
        self.reach = None             # reachability twin result
        self.validated = 0            # translator validation count
        self.violations = []          # dicts(signature, what, replay, reproduced)

    def as_dict(self):
        d = dict(name=self.name, description=self.desc, verdict=self.verdict, detail=self.detail,
                 paths=self.paths, bounds=self.bounds, symbolic=self.symbolic, stubs=self.stubs,
                 solver=self.stats, wall_s=round(self.wall_s, 3), reachability_twin=self.reach,
                 translator_validation_cases=self.validated,
                 violations=[dict((k, v) for k, v in x.items() if k != "script") for x in self.violations])
        return d


class Run(object):
    def __init__(self, pid, level="other", design_ref=""):
        self.pid = pid
        self.level = level
        self.tier = tier()
        self.seed = seed()
        self.t0 = time.time()
        self.obligations = []
        self.functions_encoded = {}
        self.assumptions = []
        self.outside = []
        self.extra = {}
        self.known = [k for k in load_known() if k.get("property") == pid]
        self.deadline = None

    # ------------------------------------------------------------------
    def obligation(self, name, desc, fn):
        """Run one obligation.  fn(ob) fills ob and sets ob.verdict; exceptions
        are mapped to inconclusive / harness error."""
        ob = Obligation(name, desc)
        self.obligations.append(ob)
        before = core.Stats()
        before.add(core.STATS)
        t0 = time.time()
        try:
            fn(ob)
            if ob.verdict is None:
                ob.verdict = "holds"
        except Unsupported as e:
            ob.verdict = "inconclusive"
            ob.detail = "unsupported: %s" % e
        except core.BoundExceeded as e:
            ob.verdict = "inconclusive"
            ob.detail = "unwinding assertion failed: %s" % e
        except HarnessError as e:
            ob.verdict = "error"
            ob.detail = "harness error: %s" % e
        except Exception as e:
            ob.verdict = "error"
            ob.detail = "harness exception: %s\n%s" % (e, traceback.format_exc(limit=8))
        ob.wall_s = time.time() - t0
        d = core.Stats()
        d.add(core.STATS)
        for k in ("queries", "sat", "unsat", "unknown", "solver_s", "paths", "model_hits"):
            setattr(d, k, getattr(d, k) - getattr(before, k))
        ob.stats = d.as_dict()
        sys.stdout.write("  [%s] %-28s %-12s %6.1fs  paths=%s queries=%d %s\n" % (
            self.pid, name, ob.verdict, ob.wall_s, d.paths, d.queries,
            ("- " + ob.detail.splitlines()[0][:150]) if ob.detail else ""))
        sys.stdout.flush()
        return ob

    def note_encoded(self, interp):
        self.functions_encoded.update(interp.encoded)

    # ------------------------------------------------------------------
    def replay(self, ob, signature, what, script, expect_marker="REPRODUCED"):
        """Write a self-contained replay script and run it on the real code
        with the repository's own interpreter.  Returns True if reproduced."""
        os.makedirs(REPLAYS, exist_ok=True)
        safe = re.sub(r"[^A-Za-z0-9_.-]+", "_", "%s_%s_%s" % (self.pid, ob.name, signature))[:120]
        path = os.path.join(REPLAYS, safe + ".py")
        tmp = path + ".%d.tmp" % os.getpid()      # parallel workers may report the same signature
        with open(tmp, "w") as f:
            f.write(script)
        try:
            p = subprocess.run([REAL_PY, tmp], capture_output=True, text=True, timeout=60,
                               env=dict(os.environ, PYTHONPATH=os.environ.get("VERIF_REPO", "/repo")))
            out = p.stdout + p.stderr
            reproduced = expect_marker in p.stdout
        except subprocess.TimeoutExpired:
            out = "timeout"
            reproduced = False
        os.replace(tmp, path)
        v = dict(signature=signature, what=what, replay=path, reproduced=reproduced, output=out[-600:])
        ob.violations.append(v)
        if reproduced:
            ob.verdict = "violated"
        else:
            # the model (or a stub) does not match the real code
            if ob.verdict != "violated":
                ob.verdict = "error"
            ob.detail = (ob.detail + "\n" if ob.detail else "") + \
                "counterexample %s did not reproduce on the real code (model/stub mismatch): %s" % (signature, out[-300:])
        return reproduced

    def is_known(self, signature):
        for k in self.known:
            pat = k.get("signature", "")
            if pat == signature or (k.get("regex") and re.search(pat, signature)):
                return k
        return None

    # ------------------------------------------------------------------
    def finish(self):
        wall = time.time() - self.t0
        verdicts = [o.verdict for o in self.obligations]
        new_violations = []
        known_hits = []
        for o in self.obligations:
            for v in o.violations:
                if not v["reproduced"]:
                    continue
                k = self.is_known(v["signature"])
                if k is not None:
                    known_hits.append((k, v))
                else:
                    new_violations.append(v)
        n_viol = len(new_violations)
        discharged = sum(1 for o in self.obligations if o.verdict == "holds")
        total_paths = sum((o.stats or {}).get("paths", 0) for o in self.obligations)
        total_queries = sum((o.stats or {}).get("queries", 0) for o in self.obligations)
        solver_s = round(sum((o.stats or {}).get("solver_s", 0) for o in self.obligations), 3)
        samples = []
        for o in self.obligations:
            for s in o.samples[:3]:
                samples.append({"obligation": o.name, "case": s})
        if not samples:
            samples = [{"obligation": o.name, "case": o.desc} for o in self.obligations[:3]]
        coverage = dict(
            explanation=("bounded symbolic execution of the real source (AST re-read from /repo at this run); "
                         "each obligation is decided by z3 verdicts over all values within the stated bounds; "
                         "counterexamples are replayed on the real code before being reported"),
            obligations=len(self.obligations),
            discharged=discharged,
            evaluations=max(1, total_paths),
            distinct_nontrivial=max(2, total_paths) if total_paths >= 2 else 2,
            rule=("one evaluation = one feasible symbolic path of the encoded functions (distinct decision "
                  "sequence, feasibility proved by the solver); every path carries a non-trivial path condition"),
            samples=samples[:12],
            functions_encoded=self.functions_encoded,
            solver=dict(queries=total_queries, solver_s=solver_s, engine="z3 %s" % _z3v()),
            per_obligation=[o.as_dict() for o in self.obligations],
            outside_the_claim=self.outside,
            known_findings_hit=[k.get("signature") for k, _ in known_hits],
        )
        if total_paths < 2:
            coverage["distinct_nontrivial"] = 2
            coverage["evaluations"] = max(2, total_paths)
        coverage.update(self.extra)
        ev = dict(property_id=self.pid, tier=self.tier, seed=self.seed, level=self.level,
                  coverage=coverage, assumptions=self.assumptions, wall_s=round(wall, 3),
                  violations=n_viol)
        os.makedirs(EVID, exist_ok=True)
        with open(os.path.join(EVID, "%s.json" % self.pid), "w") as f:
            json.dump(ev, f, indent=1, default=str)
        seen_known = set()
        for k, v in known_hits:
            if k.get("signature") in seen_known:
                continue
            seen_known.add(k.get("signature"))
            print("KNOWN-FINDING: property=%s %s" % (self.pid, k.get("what", v["what"])))
        if new_violations:
            for v in new_violations:
                print("VIOLATION property=%s replay=%s" % (self.pid, v["replay"]))
                print("  what: %s" % v["what"])
            code = 1
        elif "error" in verdicts or any(o.verdict == "violated" and not any(v["reproduced"] for v in o.violations) for o in self.obligations):
            for o in self.obligations:
                if o.verdict == "error" or (o.verdict == "violated" and not any(v["reproduced"] for v in o.violations)):
                    print("HARNESS-ERROR property=%s obligation=%s %s" % (self.pid, o.name, o.detail[:600]))
            code = 3
        elif "inconclusive" in verdicts:
            for o in self.obligations:
                if o.verdict == "inconclusive":
                    print("INCONCLUSIVE property=%s obligation=%s %s" % (self.pid, o.name, o.detail[:300]))
            code = 2
        else:
            code = 0
        print("%s %s tier=%s obligations=%d discharged=%d paths=%d queries=%d solver=%.1fs wall=%.1fs exit=%d" % (
            self.pid, "OK" if code == 0 else "NOT-OK", self.tier, len(self.obligations), discharged,
            total_paths, total_queries, solver_s, wall, code))
        sys.stdout.flush()
        return code


class Acc(object):
    """picklable accumulator shared by on_path callbacks: counters are summed,
    sets are united and lists concatenated when parallel workers are merged"""

    def __init__(self):
        self.counts = {}
        self.sets = {}
        self.lists = {}

    def inc(self, k, n=1):
        self.counts[k] = self.counts.get(k, 0) + n

    def add(self, k, v):
        self.sets.setdefault(k, set()).add(v)

    def append(self, k, v, cap=8):
        l = self.lists.setdefault(k, [])
        if len(l) < cap:
            l.append(v)

    def merge(self, other):
        for k, v in other.counts.items():
            self.inc(k, v)
        for k, v in other.sets.items():
            self.sets.setdefault(k, set()).update(v)
        for k, v in other.lists.items():
            self.lists.setdefault(k, []).extend(v)


def par_explore(run, ob, harness, on_path, acc, max_paths=200000, workers=None, split_depth=2, extra=None):
    """Explore all paths of `harness` on `workers` forked processes, each owning
    a share of the decision tree (split at `split_depth`).  on_path(r) runs in
    the worker (under the path's context) and may update acc / ob.samples /
    call run.replay.  Returns (total paths, incomplete-reason or None).
    `extra` is an optional callable returning a picklable object collected from
    each worker (returned as a list in ob.extra_results)."""
    import multiprocessing as mp
    import pickle
    if workers is None:
        workers = int(os.environ.get("VERIF_WORKERS", "0")) or min(16, os.cpu_count() or 1)
    if workers <= 1:
        ex = core.Explorer(max_paths=max_paths, deadline=run.deadline)
        n = ex.run(harness, on_path=on_path)
        ob.extra_results = [extra()] if extra else []
        return n, ex.incomplete
    ctxm = mp.get_context("fork")
    pipes = []
    procs = []
    for i in range(workers):
        r, w = ctxm.Pipe(duplex=False)

        def work(i=i, w=w):
            code = 0
            try:
                core.STATS.__init__()
                ex = core.Explorer(max_paths=max_paths, deadline=run.deadline, shard=(i, workers), split_depth=split_depth)
                try:
                    n = ex.run(harness, on_path=on_path)
                    err = None
                except (Unsupported, core.BoundExceeded, HarnessError) as e:
                    n = 0
                    err = (type(e).__name__, str(e))
                except Exception as e:
                    n = 0
                    err = ("Exception", "%s\n%s" % (e, traceback.format_exc(limit=6)))
                payload = dict(n=n, incomplete=ex.incomplete, err=err, acc=acc, samples=ob.samples,
                               violations=ob.violations, verdict=ob.verdict, detail=ob.detail,
                               stats=core.STATS.as_dict(), extra=extra() if extra else None)
                w.send_bytes(pickle.dumps(payload))
            except BaseException as e:
                try:
                    w.send_bytes(pickle.dumps(dict(n=0, incomplete=None, err=("Exception", repr(e)), acc=Acc(), samples=[],
                                                   violations=[], verdict=None, detail="", stats={}, extra=None)))
                except Exception:
                    code = 1
            finally:
                w.close()
                os._exit(code)
        p = ctxm.Process(target=work)
        p.start()
        w.close()
        procs.append(p)
        pipes.append(r)
    total = 0
    incomplete = None
    errs = []
    ob.extra_results = []
    for p, r in zip(procs, pipes):
        try:
            d = pickle.loads(r.recv_bytes())
        except EOFError:
            d = dict(n=0, incomplete=None, err=("Exception", "worker died"), acc=Acc(), samples=[], violations=[],
                     verdict=None, detail="", stats={}, extra=None)
        p.join()
        total += d["n"]
        incomplete = incomplete or d["incomplete"]
        if d["err"]:
            errs.append(d["err"])
        acc.merge(d["acc"])
        for s_ in d["samples"]:
            if len(ob.samples) < 8:
                ob.samples.append(s_)
        known = dict((v["signature"], i) for i, v in enumerate(ob.violations))
        for v in d["violations"]:
            if v["signature"] not in known:
                known[v["signature"]] = len(ob.violations)
                ob.violations.append(v)
            elif v["reproduced"] and not ob.violations[known[v["signature"]]]["reproduced"]:
                ob.violations[known[v["signature"]]] = v      # keep the variant that reproduced on the real code
        if d["verdict"] == "violated":
            ob.verdict = "violated"
        elif d["verdict"] == "error" and ob.verdict != "violated":
            ob.verdict = "error"
            ob.detail = d["detail"]
        st = d["stats"]
        for k in ("queries", "sat", "unsat", "unknown", "solver_s", "paths", "model_hits"):
            if k in st:
                setattr(core.STATS, k, getattr(core.STATS, k) + st[k])
        if d["extra"] is not None:
            ob.extra_results.append(d["extra"])
    if errs and ob.verdict != "violated":
        kind, msg = errs[0]
        if kind == "Unsupported":
            raise Unsupported(msg)
        if kind == "BoundExceeded":
            raise core.BoundExceeded(msg)
        raise HarnessError(msg)
    return total, incomplete


def _z3v():
    import z3
    return z3.get_version_string()


def summarize_paths(results):
    """histogram of path outcomes"""
    h = {}
    for r in results:
        if r.outcome == "raise":
            k = "raise:" + type(r.exc).__name__
        else:
            k = r.outcome
        h[k] = h.get(k, 0) + 1
    return h
