"""C17 -- closing a server ends all its clients; departed clients leave nothing behind.

Encoded (re-read from /repo at every run, interpreted by engine S): every method of
rpyc/utils/server.py that a history reaches -- Server.__init__/_listen/start/accept/close/
_authenticate_and_serve_client/_serve_client, OneShotServer/ThreadedServer/ThreadPoolServer/
ForkingServer._accept_method, the thread pool's poller/worker/bookkeeping methods and close().
Environment (sockets, threads, processes, time) = the stubs of props/srv_world.py; rpyc.core
underneath runs natively (its behaviour is the subject of C05/C11).
"""
import sys

from engine import core
from engine.harness import Run, Acc, par_explore
from engine.interp import Interp
from props import srv_world as W

ALPHABET = ["G", "C", "Lf", "Lr", "B-silent", "B-bad-token", "B-reset-early", "X"]


def replay_script(prop, kind, auth, hist, slow=False):
    return '''# replay of a counterexample found by /verif (property %s): the same history of client events, executed by
# CPython on the real rpyc/utils/server.py over the socket / thread / process model of props/srv_world.py
import sys
sys.path.insert(0, __import__("os").environ.get("VERIF_REPO", "/repo")); sys.path.insert(0, "/verif")
from props import srv_world as W
bad, summary = W.run_history(%r, %r, %r, %r, slow_hooks=%r)
for b in bad: print(b)
print(summary)
if bad:
    print("REPRODUCED"); sys.exit(1)
''' % (prop, kind, auth, hist, prop, slow)


def explore(run, interp, prop, alphabet, length, kinds):
    def ob(o):
        o.symbolic = ["server class: %s; authenticator: none / token-reading / token-reading and handing back a new socket object, as ssl wrapping does (exhaustive)" % kinds,
                      "history of %d external events, each any applicable one of %s" % (length, alphabet)]
        o.symbolic.append("thread-pool server: disconnect hooks return at once / take until the next external event")
        o.bounds = {"history_length": length, "schedules": "settled: after every event all runnable threads/processes run to quiescence, round robin",
                    "pool_threads": 2}
        o.stubs = ["sockets, listener, poll, threads (spawn/join), queue, fork/_exit, signal, time: props/srv_world.py",
                   "rpyc.core (Connection, Channel, SocketStream, brine) runs natively"]
        acc = Acc()

        def harness(c):
            kind = kinds[c.choose(len(kinds), "server")]
            auth = W.AUTH_KINDS[c.choose(len(W.AUTH_KINDS), "authenticator")]
            slow = kind == "pool" and c.choose(2, "slow-disconnect-hook") == 1
            sc = W.Scenario(kind, auth, interp, slow)
            hist = []
            c.notes.update(kind=kind, auth=auth, hist=hist, slow=slow)
            try:
                for _ in range(length):
                    app = sc.applicable(alphabet)
                    ev = app[c.choose(len(app), "event")]
                    hist.append(ev)
                    sc.apply(ev)
                return W.judge(sc, prop)
            finally:
                sc.finish()

        def on_path(r):
            if r.outcome == "abort":
                return
            n = r.ctx.notes
            if r.outcome == "bound":
                raise core.BoundExceeded(str(r.exc))
            acc.inc(n["kind"])
            if r.outcome == "raise":
                bad = [("harness", "history %s raised %r" % (n["hist"], r.exc))]
                raise core.HarnessError("history %s on %s raised %r" % (n["hist"], n["kind"], r.exc))
            bad, summary = r.value
            if len(o.samples) < 5:
                o.samples.append({"server": n["kind"], "authenticator": n["auth"], "history": list(n["hist"]), "end": summary["clients"][:3]})
            for code, what in bad:
                sig = "%s:%s" % (n["kind"], code)
                if any(v["signature"] == sig for v in o.violations):
                    continue
                run.replay(o, sig, "%s (server %s, authenticator %s, %shistory %s)" % (what, n["kind"], n["auth"] or "none", "disconnect hooks that take time, " if n["slow"] else "", n["hist"]),
                           replay_script(prop, n["kind"], n["auth"], list(n["hist"]), n["slow"]))

        n_, incomplete = par_explore(run, o, harness, on_path, acc, split_depth=4)
        o.paths = dict(acc.counts, total=n_)
        if incomplete:
            o.verdict = "inconclusive"
            o.detail = incomplete
        for k in kinds:
            if not acc.counts.get(k):
                raise core.HarnessError("reachability twin: no history completed for the %s server" % k)
    return ob


def translator_validation(run, interp, prop):
    """the same histories through the interpreter and through CPython must give the same observations"""
    def ob(o):
        n = 0
        for kind in W.KINDS:
            for auth in W.AUTH_KINDS:
                for hist in (["G", "C", "Lf"], ["G", "B-reset-early", "C"], ["B-silent", "G", "Lr"], ["G", "G", "X"]):
                    a = W.run_history(kind, auth, hist, prop)
                    res = []
                    ex = core.Explorer(max_paths=4)
                    ex.run(lambda c: W.run_history(kind, auth, hist, prop, interp), on_path=lambda r: res.append(r))
                    if len(res) != 1 or res[0].outcome != "return" or res[0].value != a:
                        raise core.HarnessError("interpreter and CPython disagree on %s/%s/%s: %r vs %r" % (kind, auth, hist, a, [x.value if x.outcome == "return" else x.exc for x in res]))
                    n += 1
        o.validated = n
        o.paths = {"histories": n}
    return ob


def main():
    run = Run("C17", level="other")
    interp = Interp(interpret_prefixes=("rpyc.utils.server",), loop_bound=2000)
    thorough = run.tier == "thorough"
    run.assumptions = [
        "environment model (props/srv_world.py): a shut-down or fully closed server-side socket is what makes a client observe end-of-stream; "
        "a descriptor that is shut down and no longer referenced from any server table counts as released (CPython closes it when the serving thread returns)",
        "schedules: one settled interleaving per history (threads run to their next blocking call after every external event)",
        "what a closed socket does to the serving Connection (EOF -> close -> disconnect hook once) is C05 + C11; here rpyc.core runs natively on the model sockets",
    ]
    run.outside = ["real kernels: /proc/self/fd accounting, TCP promptness, SIGCHLD reaping, unix-socket path cleanup", "races between close() and a thread that has not reached its next blocking call",
                   "gevent server", "histories longer than the bound"]
    run.obligation("O0_translator_validation", "interpreter == CPython on sample histories of every server class", translator_validation(run, interp, "C17"))
    run.obligation("O1_histories", "every history: departed clients leave no descriptor / table entry; after close() every client sees end-of-stream, every disconnect hook ran once, "
                   "all tables are empty, the server's threads have ended, closing twice is harmless; a one-shot server serves one connection and shuts down",
                   explore(run, interp, "C17", ALPHABET, 4 if thorough else 3, W.KINDS))
    run.note_encoded(interp)
    sys.exit(run.finish())


if __name__ == "__main__":
    main()
