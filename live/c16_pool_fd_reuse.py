"""Live demonstration (real sockets, real threads, no model) for property C16: in a ThreadPoolServer a client that
disconnects while its service's disconnect hook takes some time frees its descriptor number; a well-behaved client that
connects in that window gets the same number -- and used to be dropped in place of the departed one.

usage: PYTHONPATH=<rpyc tree> /venv/bin/python c16_pool_fd_reuse.py
exit 1 + REPRODUCED when the well-behaved client is disconnected.
"""
import os, sys, time, threading, logging
sys.path.insert(0, os.environ.get("VERIF_REPO", "/repo"))
import rpyc
from rpyc.utils.server import ThreadPoolServer

logging.disable(logging.CRITICAL)
gate, entered = threading.Event(), threading.Event()


class Svc(rpyc.Service):
    def on_connect(self, conn):
        self.slow = False

    def exposed_be_slow(self):
        self.slow = True

    def on_disconnect(self, conn):
        if self.slow:                     # application clean-up that takes a while
            entered.set()
            gate.wait(10)

    def exposed_echo(self, x):
        return x


srv = ThreadPoolServer(Svc, hostname="127.0.0.1", port=0, nbThreads=3, auto_register=False)
srv._start_in_thread()
leaver = rpyc.connect("127.0.0.1", srv.port)
leaver.root.be_slow()
fds_before = sorted(srv.fd_to_conn)
leaver._channel.stream.sock.close()                   # goes away without saying goodbye
if not entered.wait(5):
    print("the disconnect hook never started"); os._exit(3)
good = rpyc.connect("127.0.0.1", srv.port, config=dict(sync_request_timeout=5))
time.sleep(0.5)
fds_with_good = sorted(srv.fd_to_conn)
gate.set()
time.sleep(0.5)
try:
    answer = good.root.echo(41) + 1
except BaseException as e:
    answer = repr(e)
print("descriptor numbers: departed client", fds_before, "| well-behaved client", fds_with_good, "| table afterwards", sorted(srv.fd_to_conn))
print("well-behaved client gets:", answer)
if answer != 42:
    print("REPRODUCED")
    os._exit(1)
os._exit(0)
