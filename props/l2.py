"""Shared infrastructure for the protocol-level (L2) harnesses.

* identity codec: brine.dump/load replaced by a Frame wrapper that refuses exactly
  what the real brine.dumpable refuses (contract discharged by C04); Channel
  replaced by an in-memory frame list (contract discharged by C05).
* a virtual clock so that wait loops end without real sleeping.
* real-vs-real connection pairs over in-memory pipes with a serving thread, for
  flows with nested callbacks (two real connections pumped on one stack dead-lock
  on the first nested callback, DESIGN.md section 9).
"""
import queue
import threading
import time

import z3

from engine import core, values as V
from engine.core import ctx
from engine.values import Sym, SymReal


class Frame(object):
    """an encoded message under the identity codec"""
    __slots__ = ("obj",)

    def __init__(self, obj):
        self.obj = obj

    def __repr__(self):
        return "Frame(%r)" % (self.obj,)


def install_identity_codec(interp):
    from rpyc.core import brine

    def dump(interp_, obj):
        if not interp_.call(brine.dumpable, (obj,)):
            raise TypeError("cannot dump %r" % (type(obj),))
        return Frame(obj)

    def load(interp_, data):
        if not isinstance(data, Frame):
            raise ValueError("not a frame")
        return data.obj
    interp.models[brine.dump] = dump
    interp.models[brine.load] = load


class VClock(object):
    def __init__(self):
        self.now = z3.RealVal(1000)

    def time(self):
        return SymReal(self.now)

    def sleep(self, dt):
        self.now = z3.simplify(self.now + V.term(dt))


def install_clock(interp):
    import rpyc.lib
    import rpyc.core.async_
    import rpyc.core.protocol
    clk = VClock()
    for mod in (rpyc.lib, rpyc.core.async_, rpyc.core.protocol):
        interp.override_global(mod, "time", clk)
    return clk


class ListChannel(object):
    """in-memory channel; an optional peer reacts synchronously to every frame sent"""

    def __init__(self, interp=None, clock=None, peer=None):
        self.out = []
        self.inbox = []
        self.peer = peer
        self.closed = False
        self.interp = interp
        self.clock = clock
        self.fail_send_at = None
        self.fail_recv_at = None
        self.ops = 0

    def _op(self, kind):
        self.ops += 1

    def send(self, data):
        if self.closed:
            raise EOFError("stream has been closed")
        self.out.append(data)
        if self.peer is not None:
            self.peer.on_frame(data)

    def poll(self, timeout):
        if self.closed:
            raise EOFError("stream has been closed")
        if self.inbox:
            return True
        if self.clock is not None and self.interp is not None:
            from rpyc.lib import Timeout
            t = self.interp.call(Timeout, (timeout,))
            left = self.interp.call(Timeout.timeleft, (t,))
            if left is None:
                ctx().assume(False)      # would block forever: not a terminating execution
            self.clock.now = z3.simplify(self.clock.now + V.term(left))
        return False

    def recv(self):
        return self.inbox.pop(0)

    def close(self):
        self.closed = True

    def fileno(self):
        return 9


def make_conn(chan, config=None, service=None):
    from rpyc.core.protocol import Connection
    from rpyc.core.service import VoidService
    return Connection(service if service is not None else VoidService(), chan, config or {})


def retire(*conns):
    for c in conns:
        c._closed = True


from props.pairs import PipeChannel, Pair  # noqa: E402,F401
