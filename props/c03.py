"""C03 -- immutable values travel by copy, everything else by reference; identity survives.

O1: the real Connection._box / brine.dumpable decision on symbolic values (kind at
every position exhaustive incl. subclass instances, contents symbolic).
O2: identity over send / echo / re-receive / drop histories on two real connections.
O3: obtain / deliver produce equal but independent objects.
"""
import sys

import z3

from engine import core, values as V
from engine.core import ctx
from engine.harness import Run, Acc, par_explore
from engine.interp import Interp
from engine.values import Sym
from props import l2
from props.c04 import expr_of, shape_sig, PRELUDE
from specs import plain_sym as P


def expected(v, conn, netref_mod):
    """the property's decision for value v sent over conn: ('value',) / ('tuple', [..]) / ('local',) / ('remote',)"""
    if P.is_plain(v):
        return ("value",)
    if V.pytype_of(v) is tuple:
        return ("tuple", [expected(x, conn, netref_mod) for x in v])
    if isinstance(v, netref_mod.BaseNetref) and object.__getattribute__(v, "____conn__") is conn:
        return ("local",)
    return ("remote",)


def check_box(boxed, v, conn, consts, exp, problems):
    label, payload = boxed
    if exp[0] == "value":
        if label != consts.LABEL_VALUE:
            problems.append("plain value boxed with label %r" % (label,))
        else:
            same = P.same(v, payload)
            if same is False:
                problems.append("value payload differs")
            elif same is not True:
                problems.append(("term", same))
    elif exp[0] == "tuple":
        if label != consts.LABEL_TUPLE or len(payload) != len(v):
            problems.append("tuple with a non-plain member boxed with label %r" % (label,))
        else:
            for b, x, e in zip(payload, v, exp[1]):
                check_box(b, x, conn, consts, e, problems)
    elif exp[0] == "local":
        if label != consts.LABEL_LOCAL_REF or tuple(payload) != tuple(object.__getattribute__(v, "____id_pack__")):
            problems.append("a proxy handed back to its owner boxed with label %r" % (label,))
    else:
        if label != consts.LABEL_REMOTE_REF:
            problems.append("%s boxed with label %r (must travel by reference)" % (V.pytype_of(v).__name__, label))
        else:
            try:
                if conn._local_objects[payload] is not v:
                    problems.append("reference resolves to another object")
            except KeyError:
                problems.append("reference not entered in the local object table")


def ob_decision(run, interp, depth, arity=2):
    from rpyc.core.protocol import Connection
    from rpyc.core import consts, netref

    def ob(o):
        o.symbolic = ["value kind at every position: 9 plain leaf kinds, tuple/frozenset/slice, %d non-plain witness types incl. enum member, named tuple, "
                      "str/int/bytes/tuple/frozenset subclass instances, own proxy, foreign proxy" % (len(P.nonplain_witnesses()) + 2),
                      "contents: Int / opaque text / bytes of symbolic length / IEEE floats / Bool"]
        o.bounds = {"nesting_depth": depth, "max_container_arity": 2}
        acc = Acc()

        def harness(c):
            conn = l2.make_conn(l2.ListChannel())
            other = l2.make_conn(l2.ListChannel())
            special = c.choose(3, "special")
            if special == 1:
                v = conn._netref_factory(("builtins.list", 1, 2))
            elif special == 2:
                v = (other._netref_factory(("builtins.dict", 3, 4)), None)
            else:
                v = P.gen_value(c, depth, arity, with_nonplain=True)
            c.notes.update(conn=conn, other=other, v=v)
            try:
                return interp.call(Connection._box, (conn, v))
            finally:
                l2.retire(conn, other)

        def on_path(r):
            c = r.ctx
            if r.outcome == "abort" or "v" not in c.notes:
                return
            n = c.notes
            v, conn = n["v"], n["conn"]
            acc.inc("checked")
            bad = None
            model = None
            if r.outcome != "return":
                bad = "_box raised %s: %s" % (type(r.exc).__name__ if r.exc else r.outcome, r.exc)
            else:
                problems = []
                exp = expected(v, conn, netref)
                check_box(r.value, v, conn, consts, exp, problems)
                acc.inc("label:" + exp[0])
                terms = [p[1] for p in problems if isinstance(p, tuple)]
                texts = [p for p in problems if not isinstance(p, tuple)]
                if texts:
                    bad = texts[0]
                elif terms:
                    ok, model = c.must_hold(z3.And(*terms))
                    if not ok:
                        bad = "value payload differs"
            if len(o.samples) < 5 and r.outcome == "return":
                o.samples.append({"shape": shape_sig(v) if not isinstance(v, netref.BaseNetref) else "own-proxy", "label": r.value[0]})
            if bad and len(o.violations) < 3:
                m = model or c.check_model()
                if m is None:
                    return
                try:
                    expr = expr_of(v, m)
                except Exception:
                    expr = "PROXY" if isinstance(v, netref.BaseNetref) else "(FOREIGN, None)"
                sig = "box:%s" % bad.split()[0]
                if any(x["signature"] == sig for x in o.violations):
                    return
                run.replay(o, sig, "%s for %s" % (bad, expr[:150]), replay_box(expr))

        n_, incomplete = par_explore(run, o, harness, on_path, acc, split_depth=4, max_paths=3000000 if (depth >= 2 or arity >= 3) else 200000)
        o.paths = dict(acc.counts, total=n_)
        if incomplete:
            o.verdict = "inconclusive"
            o.detail = incomplete
        for k in ("label:value", "label:tuple", "label:local", "label:remote"):
            if not acc.counts.get(k):
                raise core.HarnessError("reachability twin: %s" % acc.counts)
    return ob


def replay_box(expr):
    return PRELUDE + '''
sys.path.insert(0, "/verif")
from rpyc.core.protocol import Connection
from rpyc.core.service import VoidService
from rpyc.core import consts, netref
class Ch(object):
    def send(self, d): pass
    def close(self): pass
conn = Connection(VoidService(), Ch()); other = Connection(VoidService(), Ch())
PROXY = conn._netref_factory(("builtins.list", 1, 2))
FOREIGN = other._netref_factory(("builtins.dict", 3, 4))
v = %s
def exp(v):
    if is_plain(v): return "value"
    if type(v) is tuple: return ("tuple", [exp(x) for x in v])
    if isinstance(v, netref.BaseNetref) and object.__getattribute__(v, "____conn__") is conn: return "local"
    return "remote"
bad = []
def check(b, v, e):
    label, payload = b
    if e == "value":
        if label != consts.LABEL_VALUE or not same(payload, v): bad.append(("value", label))
    elif e == "local":
        if label != consts.LABEL_LOCAL_REF: bad.append(("local", label))
    elif e == "remote":
        if label != consts.LABEL_REMOTE_REF or conn._local_objects[payload] is not v: bad.append(("remote", label))
    else:
        if label != consts.LABEL_TUPLE or len(payload) != len(v): bad.append(("tuple", label))
        else:
            for x, y, z in zip(payload, v, e[1]): check(x, y, z)
check(conn._box(v), v, exp(v))
conn._closed = other._closed = True
print(bad)
if bad:
    print("REPRODUCED"); sys.exit(1)
''' % expr


# ---------------------------------------------------------------------------
IDENTITY_RUNNER = '''
import sys, gc, weakref, enum, collections
sys.path.insert(0, __import__("os").environ.get("VERIF_REPO", "/repo")); sys.path.insert(0, "/verif")
from props import pairs
import rpyc
from rpyc.core import netref
class Color(enum.IntEnum):
    RED = 1
Point = collections.namedtuple("Point", "x y")
class MyStr(str): pass
class Thing(object):
    def __init__(self): self.items = []
class Falsy(object):
    def __bool__(self): return False
class Sized0(object):
    def __len__(self): return 0
def make_objects():
    # truthy and falsy targets alike: bool() of a proxy is the target's
    return [[1, 2], {"a": 1}, Thing(), Color.RED, Point(1, 2), MyStr("s"), (lambda: 5), [], {}, Falsy(), Sized0(), bytearray()]
NKINDS = 12
class Holder(rpyc.Service):
    # side B: everything B does with the references happens inside requests served by B's own thread
    def __init__(self): self.held = []; self.remarks = []
    def exposed_hold(self, p):
        if not isinstance(p, netref.BaseNetref): self.remarks.append("arrived by value: %r" % type(p))
        if self.held and self.held[-1] is not p: self.remarks.append("second receipt while a proxy is alive gave another proxy")
        self.held.append(p)
    def exposed_echo(self): return self.held[-1] if self.held else None
    def exposed_drop(self):
        if self.held: self.held.pop(0); gc.collect()
    def exposed_mutate(self, which):
        if not self.held: return
        p = self.held[-1]
        if which == 0: p.append(99)
        elif which == 1: p["k"] = 7
        else: p.items.append(3)
    def exposed_notes(self): return tuple(self.remarks)
def run_history(hist, which):
    svc = Holder()
    cfg = dict(allow_public_attrs=True, allow_setattr=True)
    pair = pairs.Pair(service_b=svc, config_a=cfg, config_b=cfg)
    bad = []
    try:
        obj = make_objects()[which]
        root = pair.a.root
        for ev in hist:
            if ev == "s":
                root.hold(obj)
            elif ev == "e":
                back = root.echo()
                if back is not None and back is not obj: bad.append("echoed reference is not the original object (%r)" % type(back))
            elif ev == "d":
                root.drop()
            elif ev == "m" and which in (0, 1, 2):
                root.mutate(which)
                if which == 0 and svc.held and obj[-1] != 99: bad.append("mutation through the proxy did not reach the owner")
                if which == 1 and svc.held and obj.get("k") != 7: bad.append("mutation through the proxy did not reach the owner")
                if which == 2 and svc.held and 3 not in obj.items: bad.append("mutation through the proxy did not reach the owner")
        bad.extend(root.notes())
    except Exception as e:
        bad.append("raised %r" % (e,))
    finally:
        pair.close()
    return bad
'''


def ob_identity(run, length):
    def ob(o):
        import subprocess
        import json
        import os
        import tempfile
        o.symbolic = ["history of %d events over {send, echo back, drop a proxy, mutate through the proxy} (exhaustive) for 12 object kinds (truthy and falsy targets)" % length]
        o.bounds = {"history_length": length, "decided_by": "exhaustive enumeration, native execution on two real connections"}
        hists = []

        def harness(c):
            h = ["s"] + [["s", "e", "d", "m"][c.choose(4, "event")] for _ in range(length - 1)]
            hists.append("".join(h))
            return h
        core.explore(harness, max_paths=5000)
        script = IDENTITY_RUNNER + '''
import json
hists = %r
bad = []
n = 0
for h in hists:
    for which in range(NKINDS):
        n += 1
        b = run_history(h, which)
        if b: bad.append((h, which, b))
print(json.dumps(dict(n=n, bad=bad[:4])))
''' % (hists,)
        with tempfile.NamedTemporaryFile("w", suffix=".py", delete=False) as tf:
            tf.write(script)
        try:
            p = subprocess.run(["/venv/bin/python", tf.name], capture_output=True, text=True, timeout=1500,
                               env=dict(os.environ, PYTHONPATH=os.environ.get("VERIF_REPO", "/repo")))
        finally:
            os.unlink(tf.name)
        if p.returncode != 0:
            raise core.HarnessError("identity runner failed: %s" % (p.stdout + p.stderr)[-500:])
        out = json.loads(p.stdout.strip().splitlines()[-1])
        o.paths = {"histories_x_kinds": out["n"]}
        o.samples.append({"histories": hists[:6], "executed": out["n"]})
        if out["bad"]:
            h, which, b = out["bad"][0]
            run.replay(o, "identity:%s" % b[0].split()[0], "history %s on object kind %d: %s" % (h, which, b), IDENTITY_RUNNER + '''
b = run_history(%r, %d)
print(b)
if b:
    print("REPRODUCED"); sys.exit(1)
''' % (h, which))
    return ob


OBTAIN = '''
import sys, pickle
sys.path.insert(0, __import__("os").environ.get("VERIF_REPO", "/repo"))
import rpyc
from rpyc.utils import classic
conn = classic.connect_thread()
bad = []
try:
    conn.execute("import collections\\nobjs = [[1, [2, 3]], {'a': (1, 2)}, set([1, 2]), collections.OrderedDict(a=1), bytearray(b'xy'), 3.5, 'text', (1, [2])]")
    remote = conn.namespace["objs"]
    local = [[1, [2, 3]], {'a': (1, 2)}, set([1, 2]), __import__("collections").OrderedDict(a=1), bytearray(b'xy'), 3.5, 'text', (1, [2])]
    for i, want in enumerate(local):
        p = remote[i]
        got = classic.obtain(p)
        if got != want or type(got) is not type(want): bad.append(("obtain", i, repr(got)))
        if isinstance(got, rpyc.BaseNetref): bad.append(("obtain returned a proxy", i))
        if isinstance(want, list):
            got.append("local change")
            if len(p) != len(want): bad.append(("obtained copy is not independent", i))
    for i, obj in enumerate(local):
        q = classic.deliver(conn, obj)
        if not isinstance(q, rpyc.BaseNetref) and rpyc.core.brine.dumpable(obj) is False and not isinstance(obj, tuple): bad.append(("deliver did not return a proxy", i))
        conn.namespace["q"] = q
        if not conn.eval("q == objs[%d] and type(q) is type(objs[%d])" % (i, i)): bad.append(("delivered copy differs", i))
        if isinstance(obj, list):
            obj.append("local change")
            if conn.eval("len(q)") != len(obj) - 1: bad.append(("delivered copy is not independent", i))
finally:
    conn.close()
print(bad)
if bad:
    print("REPRODUCED"); sys.exit(1)
'''


def ob_obtain(run):
    def ob(o):
        import subprocess
        import os
        o.symbolic = ["8 object kinds (nested list, dict, set, OrderedDict, bytearray, float, text, tuple holding a list)"]
        o.bounds = {"decided_by": "direct execution over a real loopback connection (classic mode)"}
        p = subprocess.run(["/venv/bin/python", "-c", OBTAIN], capture_output=True, text=True, timeout=300,
                           env=dict(os.environ, PYTHONPATH=os.environ.get("VERIF_REPO", "/repo")))
        o.samples.append({"output": (p.stdout + p.stderr)[-200:]})
        if "REPRODUCED" in p.stdout:
            run.replay(o, "obtain-deliver", "obtain/deliver do not produce equal independent copies: %s" % p.stdout[-300:], OBTAIN)
        elif p.returncode != 0:
            raise core.HarnessError("obtain/deliver driver failed: %s" % (p.stdout + p.stderr)[-400:])
    return ob


def main():
    run = Run("C03", level="other")
    interp = Interp()
    thorough = run.tier == "thorough"
    run.assumptions = ["O2/O3 are exhaustive enumeration / direct execution on real connections (no solver variables); O1 is decided symbolically",
                       "pickle is the copy contract of obtain/deliver"]
    run.obligation("O1_box_decision", "_box sends exactly the plain immutable values by value (type-exact), tuples member-wise, own proxies as local refs, everything else by reference",
                   ob_decision(run, interp, 1, 3 if thorough else 2))
    if thorough:
        # nesting 2 with arity 2 is several million paths: widen (arity 3) and deepen (nesting 2, one element per container) separately
        run.obligation("O1_box_decision_deep", "the same for nesting depth 2 (containers of one element)", ob_decision(run, interp, 2, 1))
    run.obligation("O2_identity", "echoed references are the original object, re-received objects are the same proxy, mutation through a proxy reaches the owner",
                   ob_identity(run, 5 if thorough else 4))
    run.obligation("O3_obtain_deliver", "obtain / deliver yield equal, independent copies", ob_obtain(run))
    run.note_encoded(interp)
    sys.exit(run.finish())


if __name__ == "__main__":
    main()
