"""Engine package.  The host interpreter's int<->str digit limit is lifted for
the engine process (z3 numerals of thousands of digits are built from Python
ints); the limit that the *modelled* program runs under is kept here."""
import sys

if hasattr(sys, "get_int_max_str_digits"):
    INT_MAX_STR_DIGITS = sys.get_int_max_str_digits() or 4300
    sys.set_int_max_str_digits(0)
else:
    INT_MAX_STR_DIGITS = 0
