"""C05 -- packets arrive whole, in order and unaltered however the transport fragments.

Encoded (re-read from /repo at every run): Channel.send, Channel.recv,
SocketStream.read/write/close/closed, PipeStream.read/write/close/closed.
Environment: socket / pipe stubs whose k-th call outcome is a solver choice.
"""
import errno
import os
import socket
import sys

import z3

from engine import core, values as V
from engine.core import ctx, explore
from engine.harness import Run, summarize_paths, Acc, par_explore
from engine.interp import Interp
from engine.rope import Rope, Field, Lit, Slice, rope_eq, _const
from engine.values import Sym, SymBool, SymInt
from specs import ref_wire as W

MAXLEN = 1 << 31


class RecStream(object):
    """in-memory stream with exact semantics (contract of the stream layer,
    established by O2): write() records, read(n) returns exactly n bytes or
    raises EOFError"""

    def __init__(self, max_io_chunk, pending=None):
        self.MAX_IO_CHUNK = max_io_chunk
        self.writes = []
        self.pending = Rope.of(pending) if pending is not None else Rope(())
        self.closed_ = False

    def write(self, data):
        self.writes.append(Rope.of(data))

    def read(self, count):
        c = ctx()
        n = V.term(count)
        if c.branch(n > self.pending.length_term(), "stream-eof"):
            self.closed_ = True
            raise EOFError("connection closed by peer")
        out, self.pending = self.pending.split_at(n)
        return out.maybe_concrete()

    def close(self):
        self.closed_ = True

    @property
    def closed(self):
        return self.closed_


def make_channel(stream, compress):
    from rpyc.core.channel import Channel
    ch = object.__new__(Channel)
    ch.stream = stream
    ch.compress = compress
    return ch


def payload(c, hint="payload"):
    n = c.fresh_int(hint + "_len")
    c.assume(z3.And(n >= 0, n < MAXLEN))
    return Rope.blob(hint, n, assume_nonneg=False)


def ref_frame_segs(data, compress_term, zinfo):
    """reference frame of one packet as (list of alternatives guarded by terms):
    returns function(model-free) building expected rope given the actual zlib image
    used by the implementation (zinfo = rope of compressed image or None)"""
    raise NotImplementedError


def concat(ropes):
    segs = []
    for r in ropes:
        segs.extend(Rope.of(r).segs)
    return Rope(segs)


REPLAY_HEAD = '''# replay of a counterexample found by /verif (property C05/C19) on the real rpyc
import sys, struct, zlib
sys.path.insert(0, __import__("os").environ.get("VERIF_REPO", "/repo"))
from rpyc.core.channel import Channel
from rpyc.core.stream import SocketStream, PipeStream
class Rec(object):
    MAX_IO_CHUNK = SocketStream.MAX_IO_CHUNK
    def __init__(self, pending=b""):
        self.w = []; self.p = pending; self.closed = False
    def write(self, d): self.w.append(bytes(d))
    def read(self, n):
        if n > len(self.p):
            self.closed = True; raise EOFError()
        r, self.p = self.p[:n], self.p[n:]; return r
    def close(self): self.closed = True
def ref_frame(payload, compress):
    flag = 0
    if compress and len(payload) > 3000:
        payload = zlib.compress(payload, 1); flag = 1
    return struct.pack(">IB", len(payload), flag) + payload + b"\\n"
def ref_unframe(b):
    n, flag = struct.unpack(">IB", b[:5]); body = b[5:5 + n]
    assert len(body) == n and b[5 + n:6 + n] == b"\\n", "bad frame"
    return (zlib.decompress(body) if flag else body), b[6 + n:]
'''


def replay_framing(lengths, compress_tx):
    return REPLAY_HEAD + '''
lengths = %r; compress = %r
import hashlib
def noise(n, salt):
    # bytes that zlib cannot shrink (the solver's "compressed form is not shorter" case)
    out = b""; k = 0
    while len(out) < n:
        out += hashlib.sha256(b"%%d:%%d" %% (salt, k)).digest(); k += 1
    return out[:n]
bad = False
for style in ("compressible", "noise", "mixed"):
  s = Rec()
  ch = Channel(s, compress)
  payloads = []
  for i, n in enumerate(lengths):
    if style == "compressible" or (style == "mixed" and i %% 2 == 0): p = bytes([65 + i]) * n
    else: p = noise(n, i)
    payloads.append(p)
    ch.send(p)
  wire = b"".join(s.w)
  exp = b"".join(ref_frame(p, compress) for p in payloads)
  if wire != exp:
      print("wire differs from the reference frame at lengths", lengths, [len(w) for w in s.w]); bad = True
  rest = wire
  try:
      for p in payloads:
          got, rest = ref_unframe(rest)
          if got != p: bad = True; print("reference decoder reads a different payload")
  except Exception as e:
      print("reference decoder fails:", e); bad = True
  r = Channel(Rec(wire), not compress)
  for p in payloads:
      try:
          q = r.recv()
      except Exception as e:
          print("recv raised", type(e).__name__, e); bad = True; break
      if q != p:
          print("recv returned a different packet (len %%d vs %%d)" %% (len(q), len(p))); bad = True
if bad:
    print("REPRODUCED"); sys.exit(1)
''' % (lengths, compress_tx)


def ob_framing(run, interp, npackets):
    from rpyc.core.channel import Channel
    from rpyc.core.stream import SocketStream

    def ob(o):
        o.symbolic = ["payload length L_i: Int in [0, 2^31) for each of %d packets; content uninterpreted" % npackets,
                      "compress flag of the sender: Bool", "length of the zlib image: Int in [1, 2L+64]"]
        o.bounds = {"packets": npackets, "payload_len": "< 2^31"}
        o.stubs = ["zlib.compress/decompress: uninterpreted inverse pair", "struct !LB read from Channel.FRAME_HEADER",
                   "stream with exact read/write semantics (contract discharged by O2)"]
        acc = Acc()

        def harness(c):
            comp = SymBool(c.fresh_bool("compress_tx"))
            s = RecStream(SocketStream.MAX_IO_CHUNK)
            ch = make_channel(s, comp)
            datas = [payload(c, "p%d" % i) for i in range(npackets)]
            c.notes.update(datas=datas, comp=comp)
            for d in datas:
                interp.call(Channel.send, (ch, d))
            c.notes["writes"] = list(s.writes)
            wire = concat(s.writes)
            # contract of zlib images
            for e in c.log:
                if e[0] == "zlib.compress":
                    pass
            r = RecStream(SocketStream.MAX_IO_CHUNK, wire)
            rch = make_channel(r, SymBool(c.fresh_bool("compress_rx")))
            got = [interp.call(Channel.recv, (rch,)) for _ in datas]
            c.notes["rest"] = r.pending
            return got

        def on_path(r):
            c = r.ctx
            if r.outcome == "abort":
                return
            if r.outcome == "bound":
                raise core.BoundExceeded(str(r.exc))
            datas = c.notes.get("datas")
            comp = c.notes.get("comp")
            bad = None
            cond = []
            if r.outcome == "raise":
                bad = "send/recv raised %s: %s" % (type(r.exc).__name__, r.exc)
            else:
                # 1. wire == reference frames.  Per packet the reference has two forms; which one
                #    applies is a condition on (compress, L).  The wire must equal the concatenation
                #    of the applicable forms: Or over all combinations of (guard and equality).
                writes = c.notes["writes"]
                wire = concat(writes)
                forms = []
                for d in datas:
                    L = d.length_term()
                    want_z = z3.And(comp.e, L > W.COMPRESSION_THRESHOLD)
                    zblob = [x for x in wire.segs if isinstance(x, Slice) and x.base.origin and x.base.origin[0] == "z" and x.base.origin[1] is d]
                    alt = [(z3.Not(want_z), [Field(4, L), Lit(b"\x00")] + list(d.segs) + [Lit(W.FLUSHER)])]
                    if zblob:
                        zb = zblob[0].base
                        alt.append((want_z, [Field(4, zb.length), Lit(b"\x01"), Slice(zb, 0, zb.length), Lit(W.FLUSHER)]))
                    else:
                        alt.append((want_z, None))
                    forms.append(alt)
                import itertools as _it
                disj = []
                for combo in _it.product(*forms):
                    guard = z3.And(*[g for g, _ in combo])
                    if any(segs is None for _, segs in combo):
                        continue      # the implementation did not compress: this combination cannot match
                    exp = []
                    for _, segs in combo:
                        exp += segs
                    eq = rope_eq(wire, Rope(exp))
                    if eq is False:
                        continue
                    disj.append(guard if eq is True else z3.And(guard, V.truth_term(eq)))
                cond.append(z3.Or(*disj) if disj else z3.BoolVal(False))
                if bad is None:
                    # 2. number/size of writes: every write is at most MAX_IO_CHUNK? (not required by the property)
                    # 3. receiver returns the same packets and consumes everything
                    for d, g in zip(datas, r.value):
                        e2 = V.compare("==", Rope.of(g), d)
                        if e2 is False:
                            bad = "receiver returned a different packet"
                        elif e2 is not True:
                            cond.append(V.truth_term(e2))
                    cond.append(c.notes["rest"].length_term() == 0)
            acc.inc("checked")
            model = None
            if bad is None and cond:
                ok, model = c.must_hold(z3.And(*cond))
                if not ok:
                    bad = "frame/packet mismatch"
            if len(o.samples) < 5:
                o.samples.append({"writes": [str(w)[:80] for w in c.notes.get("writes", [])][:3], "outcome": r.outcome})
            if bad is not None and o.verdict != "violated":
                extra = [z3.Not(z3.And(*cond))] if cond and model is not None else []
                # prefer a counterexample without compression: the length of a real zlib image cannot be chosen freely
                m = c.small_model(extra + [z3.Not(comp.e)], [d.length_term() for d in datas])
                if m is None:
                    m = c.small_model(extra, [d.length_term() for d in datas])
                if m is None:
                    return
                lengths = [m.eval(d.length_term(), model_completion=True).as_long() for d in datas]
                if max(lengths) > 1 << 24:
                    raise core.Unsupported("counterexample needs a %d-byte packet" % max(lengths))
                cv = z3.is_true(m.eval(comp.e, model_completion=True))
                run.replay(o, "framing:%s" % bad.split()[0], "%s (lengths %s, compress=%s)" % (bad, lengths, cv), replay_framing(lengths, cv))

        saved = (interp.loop_bound, interp.on_bound)
        interp.loop_bound, interp.on_bound, interp.cuts = 4, "cut", 0      # chunk loops (if any) unwound 4 times; longer ones are cut and counted
        try:
            n, incomplete = par_explore(run, o, harness, on_path, acc, split_depth=3, extra=lambda: interp.cuts)
        finally:
            interp.loop_bound, interp.on_bound = saved
        o.paths = dict(acc.counts, total=n, cut_at_unwinding_bound=sum(o.extra_results or [0]))
        if incomplete:
            o.verdict = "inconclusive"
            o.detail = incomplete
        if not acc.counts.get("checked"):
            raise core.HarnessError("reachability twin: no framing path completed")
    return ob


# ---------------------------------------------------------------------------
# stream loops against socket / pipe stubs
# ---------------------------------------------------------------------------

class StubSocket(object):
    """socket whose k-th call outcome is a solver choice.
    recv(n): a prefix of the pending bytes of symbolic length 1..min(n, remaining);
             b'' iff nothing remains (peer closed); or raises socket.timeout /
             socket.error(EAGAIN|EWOULDBLOCK) / socket.error(other) at any call.
    send(b): accepts a prefix of symbolic length 1..len(b), or raises socket.error."""

    def __init__(self, pending, max_faults):
        self.pending = Rope.of(pending)
        self.sent = []
        self.closed_calls = 0
        self.shutdown_calls = 0
        self.faults = 0
        self.max_faults = max_faults
        self.calls = 0

    def recv(self, n):
        c = ctx()
        self.calls += 1
        opts = ["data"]
        if self.faults < self.max_faults:
            opts += ["timeout", "eagain", "ewouldblock", "error"]
        k = opts[c.choose(len(opts), "recv-outcome")]
        c.log.append(("recv", k))
        if k == "timeout":
            self.faults += 1
            raise socket.timeout("timed out")
        if k == "eagain":
            self.faults += 1
            raise socket.error(errno.EAGAIN, "try again")
        if k == "ewouldblock":
            self.faults += 1
            raise socket.error(errno.EWOULDBLOCK, "would block")
        if k == "error":
            self.faults += 1
            raise socket.error(errno.ECONNRESET, "connection reset")
        rem = self.pending.length_term()
        if c.branch(rem == 0, "peer-closed"):
            return b""
        nt = V.term(n)
        got = c.fresh_int("recv_len")
        c.assume(z3.And(got >= 1, got <= nt, got <= rem))
        out, self.pending = self.pending.split_at(got)
        return out.maybe_concrete()

    def send(self, data):
        c = ctx()
        self.calls += 1
        opts = ["data"]
        if self.faults < self.max_faults:
            opts.append("error")
        k = opts[c.choose(len(opts), "send-outcome")]
        if k == "error":
            self.faults += 1
            raise socket.error(errno.EPIPE, "broken pipe")
        d = Rope.of(data)
        got = c.fresh_int("send_len")
        c.assume(z3.And(got >= 1, got <= d.length_term()))
        out, _ = d.split_at(got)
        self.sent.append(out)
        return V.wrap(got)

    def shutdown(self, how):
        self.shutdown_calls += 1

    def close(self):
        self.closed_calls += 1

    def fileno(self):
        return 7


class StubFile(object):
    def __init__(self, fd):
        self.fd = fd
        self.closed_calls = 0

    def fileno(self):
        return self.fd

    def close(self):
        self.closed_calls += 1

    def flush(self):
        pass


def ob_stream(run, interp, kind, max_ios, max_faults):
    from rpyc.core.stream import SocketStream, PipeStream, ClosedFile

    def ob(o):
        o.symbolic = ["requested count / data length: Int in [0, 2^31)", "bytes available before the peer closes: Int >= 0",
                      "length of every partial recv/send/os.read/os.write: Int in 1..min(request, remaining)",
                      "outcome of the k-th transport call: data | timeout | EAGAIN | EWOULDBLOCK | other error (exhaustive)"]
        o.bounds = {"partial_ios_per_call": max_ios, "injected_faults_per_call": max_faults,
                    "policy": "paths needing more loop iterations are cut and counted"}
        o.stubs = [StubSocket.__doc__.strip().replace("\n", " ")]
        acc = Acc()
        saved = interp.loop_bound
        pipe_state = {}

        def os_read(interp_, fd, n):
            st = pipe_state["st"]
            c = ctx()
            opts = ["data"] + (["error"] if st.faults < st.max_faults else [])
            k = opts[c.choose(len(opts), "os.read-outcome")]
            if k == "error":
                st.faults += 1
                raise OSError(errno.EIO, "I/O error")
            rem = st.pending.length_term()
            if c.branch(rem == 0, "peer-closed"):
                return b""
            got = c.fresh_int("read_len")
            c.assume(z3.And(got >= 1, got <= V.term(n), got <= rem))
            out, st.pending = st.pending.split_at(got)
            return out.maybe_concrete()

        def os_write(interp_, fd, data):
            st = pipe_state["st"]
            c = ctx()
            opts = ["data"] + (["error"] if st.faults < st.max_faults else [])
            k = opts[c.choose(len(opts), "os.write-outcome")]
            if k == "error":
                st.faults += 1
                raise OSError(errno.EPIPE, "broken pipe")
            d = Rope.of(data)
            got = c.fresh_int("write_len")
            c.assume(z3.And(got >= 1, got <= d.length_term()))
            out, _ = d.split_at(got)
            st.sent.append(out)
            return V.wrap(got)

        def harness(c):
            op = c.choose(2, "op")       # 0 read, 1 write
            avail = c.fresh_int("avail")
            c.assume(z3.And(avail >= 0, avail < MAXLEN))
            pending = Rope.blob("incoming", avail, assume_nonneg=False)
            sock = StubSocket(pending, max_faults)
            pipe_state["st"] = sock
            if kind == "socket":
                st = object.__new__(SocketStream)
                st.sock = sock
                cls = SocketStream
            else:
                st = object.__new__(PipeStream)
                st.incoming = StubFile(3)
                st.outgoing = StubFile(4)
                cls = PipeStream
            c.notes.update(op=op, sock=sock, stream=st, pending=pending)
            if op == 0:
                count = c.fresh_int("count")
                c.assume(z3.And(count >= 0, count < MAXLEN))
                c.notes["count"] = count
                return interp.call(cls.read, (st, V.wrap(count)))
            n = c.fresh_int("data_len")
            c.assume(z3.And(n >= 0, n < MAXLEN))
            data = Rope.blob("outgoing", n, assume_nonneg=False)
            c.notes["data"] = data
            return interp.call(cls.write, (st, data.maybe_concrete()))

        def on_path(r):
            c = r.ctx
            if r.outcome == "abort":
                return
            if r.outcome == "bound":
                raise core.BoundExceeded(str(r.exc))
            op, sock, st = c.notes["op"], c.notes["sock"], c.notes["stream"]
            closed = interp.getattr(st, "closed")
            bad = None
            cond = []
            acc.inc("op%d:%s" % (op, r.outcome if r.outcome != "raise" else type(r.exc).__name__))
            if r.outcome == "raise":
                if not isinstance(r.exc, EOFError):
                    bad = "%s escaped instead of EOFError" % type(r.exc).__name__
                elif closed is not True:
                    bad = "EOFError raised but the stream is not closed"
                elif sock.faults == 0 and op == 0:
                    # without any injected fault, EOF is only right if the peer closed before `count` bytes
                    cond.append(c.notes["pending"].length_term() < c.notes["count"])
                elif sock.faults == 0 and op == 1:
                    bad = "write raised EOFError although the transport never failed"
            else:
                if closed is not False:
                    bad = "normal return but the stream was closed"
                if op == 0:
                    pend = c.notes["pending"]
                    base = pend.segs[0].base if pend.segs else None
                    want = Rope((Slice(base, 0, c.notes["count"]),)) if base is not None else Rope(())
                    cond.append(c.notes["count"] <= pend.length_term())
                    eq = V.compare("==", Rope.of(r.value), want)
                    if eq is False:
                        bad = "read returned bytes other than the next `count` bytes"
                    elif eq is not True:
                        cond.append(V.truth_term(eq))
                else:
                    eq = V.compare("==", concat(sock.sent), c.notes["data"])
                    if eq is False:
                        bad = "bytes accepted by the transport differ from the data written"
                    elif eq is not True:
                        cond.append(V.truth_term(eq))
            model = None
            if bad is None and cond:
                ok, model = c.must_hold(z3.And(*cond))
                if not ok:
                    bad = "read/write result differs from the stream contents"
            if len(o.samples) < 6 and len(c.log) > 1:
                o.samples.append({"op": "read" if op == 0 else "write", "transport_calls": [e[1] for e in c.log if e[0] == "recv"][:6],
                                  "outcome": r.outcome if r.outcome != "raise" else type(r.exc).__name__})
            if bad is not None and o.verdict != "violated":
                m = model or c.check_model()
                if m is None:
                    return
                script = c.notes.get("script_log")
                trace = []
                for e in c.log:
                    if e[0] in ("recv",):
                        trace.append(e[1])
                lens = {}
                for d in m.decls():
                    if d.name().split("!")[0] in ("recv_len", "send_len", "read_len", "write_len", "count", "avail", "data_len"):
                        lens[d.name()] = m[d].as_long()
                run.replay(o, "%s-%s:%s" % (kind, "read" if op == 0 else "write", bad.split()[0]),
                           "%s %s: %s; schedule %s lens %s" % (kind, "read" if op == 0 else "write", bad, trace, lens),
                           replay_stream(kind, op, r.decisions, trace, lens))

        interp.loop_bound = max_ios + max_faults
        interp.on_bound = "cut"
        interp.cuts = 0
        interp.models[os.read] = os_read
        interp.models[os.write] = os_write
        try:
            n, incomplete = par_explore(run, o, harness, on_path, acc, split_depth=4, extra=lambda: interp.cuts)
        finally:
            interp.loop_bound = saved
            interp.on_bound = "raise"
            interp.models.pop(os.read, None)
            interp.models.pop(os.write, None)
        cuts = sum(o.extra_results) if o.extra_results else 0
        o.paths = dict(acc.counts, total=n, cut_at_unwinding_bound=cuts)
        if incomplete:
            o.verdict = "inconclusive"
            o.detail = incomplete
        need = ["op0:return", "op0:EOFError", "op1:return", "op1:EOFError"]
        o.reach = dict((k, acc.counts.get(k, 0)) for k in need)
        if any(acc.counts.get(k, 0) == 0 for k in need):
            raise core.HarnessError("reachability twin: outcome classes %s" % o.reach)
    return ob


def replay_stream(kind, op, decisions, trace, lens):
    return REPLAY_HEAD + '''
import socket, errno, os
kind, op, lens = %r, %r, %r
# Re-run the model's scenario with a scripted transport: every partial length / fault of the
# counterexample is replayed in order against the real stream class.
order = sorted(lens.items(), key=lambda kv: (kv[0].split("!")[0] not in ("avail", "count", "data_len"), int(kv[0].split("!")[1])))
avail = lens.get("avail!0", 0); count = lens.get("count!0", 0); dlen = lens.get("data_len!0", 0)
parts = [v for k, v in order if k.split("!")[0] in ("recv_len", "send_len", "read_len", "write_len")]
trace = %r
incoming = bytes((i * 13 + 5) %% 256 for i in range(min(avail, 1 << 22)))
data = bytes((i * 11 + 3) %% 256 for i in range(min(dlen, 1 << 22)))
class Sock(object):
    def __init__(self):
        self.p = incoming; self.sent = []; self.parts = list(parts); self.trace = list(trace); self.closed = False
    def _fault(self):
        k = self.trace.pop(0) if self.trace else "data"
        if k == "timeout": raise socket.timeout()
        if k == "eagain": raise socket.error(errno.EAGAIN, "x")
        if k == "ewouldblock": raise socket.error(errno.EWOULDBLOCK, "x")
        if k == "error": raise socket.error(errno.ECONNRESET, "x")
    def recv(self, n):
        self._fault()
        if not self.p: return b""
        k = min(self.parts.pop(0) if self.parts else n, n, len(self.p))
        r, self.p = self.p[:k], self.p[k:]; return r
    def send(self, b):
        k = min(self.parts.pop(0) if self.parts else len(b), len(b))
        self.sent.append(bytes(b[:k])); return k
    def shutdown(self, how): pass
    def close(self): self.closed = True
    def fileno(self): return 7
s = Sock()
st = SocketStream(s)
bad = False
try:
    if op == 0:
        got = st.read(count)
        if got != incoming[:count] or len(got) != count:
            print("read returned %%d bytes, differing from the next %%d" %% (len(got), count)); bad = True
    else:
        st.write(data)
        if b"".join(s.sent) != data:
            print("transport received %%d bytes for %%d written" %% (len(b"".join(s.sent)), len(data))); bad = True
    if st.closed: bad = True
except EOFError:
    if not st.closed:
        print("EOFError but stream open"); bad = True
    if op == 0 and not [t for t in trace if t != "data"] and avail >= count:
        print("EOFError although enough bytes were available"); bad = True
except Exception as e:
    print("escaped:", type(e).__name__, e); bad = True
if bad:
    print("REPRODUCED"); sys.exit(1)
''' % (kind, op, lens, trace)


def ob_cut(run, interp):
    """end-of-stream at any byte offset of a frame: EOFError + closed stream, never a packet"""
    from rpyc.core.channel import Channel
    from rpyc.core.stream import SocketStream

    def ob(o):
        o.symbolic = ["payload length L: Int", "compressed?: Bool", "cut offset A: Int in [0, frame length]", "partial recv lengths"]
        o.bounds = {"partial_ios_per_read": 3}
        acc = Acc()
        saved = interp.loop_bound

        def harness(c):
            L = c.fresh_int("L")
            c.assume(z3.And(L >= 0, L < MAXLEN))
            data = Rope.blob("body", L, assume_nonneg=False)
            flag = c.choose(2, "flag")
            frame = Rope((Field(4, L), Lit(bytes([flag]))) + data.segs + (Lit(b"\n"),))
            A = c.fresh_int("cut")
            total = frame.length_term()
            c.assume(z3.And(A >= 0, A <= total))
            avail, _ = frame.split_at(A)
            sock = StubSocket(avail, 0)
            st = object.__new__(SocketStream)
            st.sock = sock
            ch = make_channel(st, True)
            c.notes.update(A=A, total=total, st=st, data=data, flag=flag)
            return interp.call(Channel.recv, (ch,))

        def on_path(r):
            c = r.ctx
            if r.outcome == "abort":
                return
            if r.outcome == "bound":
                raise core.BoundExceeded(str(r.exc))
            closed = interp.getattr(c.notes["st"], "closed")
            A, total = c.notes["A"], c.notes["total"]
            acc.inc(r.outcome if r.outcome != "raise" else type(r.exc).__name__)
            cond = None
            bad = None
            if r.outcome == "return":
                cond = A == total
                if c.notes["flag"] == 0:
                    eq = V.compare("==", Rope.of(r.value), c.notes["data"])
                    if eq is False:
                        bad = "recv returned a different packet"
                    elif eq is not True:
                        cond = z3.And(cond, V.truth_term(eq))
            elif isinstance(r.exc, EOFError):
                cond = A < total
                if closed is not True:
                    bad = "EOFError with the stream still open"
            elif c.notes["flag"] == 1 and type(r.exc).__name__ == "error":
                cond = z3.BoolVal(True)   # corrupt zlib data: an error, not a packet (compressed body is arbitrary here)
            else:
                bad = "%s escaped" % type(r.exc).__name__
            if bad is None:
                ok, m = c.must_hold(cond)
                if not ok:
                    bad = "cut frame produced %s" % ("a packet" if r.outcome == "return" else "EOFError on a complete frame")
            if bad is not None and o.verdict != "violated":
                m = c.check_model()
                if m is None:
                    return
                Lv = m.eval(z3.Int("L!0"), model_completion=True).as_long()
                Av = m.eval(A, model_completion=True).as_long()
                run.replay(o, "cut:%s" % bad.split()[0], "%s (L=%d cut at %d)" % (bad, Lv, Av), replay_cut(Lv, Av, c.notes["flag"]))

        interp.loop_bound = 4
        interp.on_bound = "cut"
        interp.cuts = 0
        try:
            n, incomplete = par_explore(run, o, harness, on_path, acc, split_depth=4, extra=lambda: interp.cuts)
        finally:
            interp.loop_bound = saved
            interp.on_bound = "raise"
        o.paths = dict(acc.counts, total=n, cut_at_unwinding_bound=sum(o.extra_results or [0]))
        if incomplete:
            o.verdict = "inconclusive"
            o.detail = incomplete
        if not acc.counts.get("return") or not acc.counts.get("EOFError"):
            raise core.HarnessError("reachability twin: %s" % acc.counts)
    return ob


def replay_cut(L, A, flag):
    return REPLAY_HEAD + '''
import socket
L, A, flag = %d, %d, %d
body = bytes((i * 3 + 1) %% 256 for i in range(min(L, 1 << 22)))
if flag: body = zlib.compress(body, 1)
frame = struct.pack(">IB", len(body), flag) + body + b"\\n"
avail = frame[:A]
class Sock(object):
    def __init__(self): self.p = avail
    def recv(self, n):
        r, self.p = self.p[:n], self.p[n:]; return r
    def shutdown(self, h): pass
    def close(self): pass
st = SocketStream(Sock())
ch = Channel(st, True)
bad = False
try:
    p = ch.recv()
    if A < len(frame): print("a packet of %%d bytes came out of a cut frame" %% len(p)); bad = True
except EOFError:
    if A >= len(frame) or not st.closed: bad = True
except Exception as e:
    print("escaped", type(e).__name__, e); bad = True
if bad:
    print("REPRODUCED"); sys.exit(1)
''' % (L, A, flag)


def translator_validation(run, interp):
    from rpyc.core.channel import Channel
    from rpyc.core.stream import SocketStream

    def ob(o):
        n = 0
        for size in (0, 1, 3000, 3001, 63994, 63995, 63996, 70000):
            for comp in (True, False):
                p = bytes((i * 7) % 251 for i in range(size))

                class S(object):
                    MAX_IO_CHUNK = SocketStream.MAX_IO_CHUNK

                    def __init__(self):
                        self.w = []

                    def write(self, d):
                        self.w.append(bytes(d))
                s1, s2 = S(), S()
                core.run_concrete(lambda: interp.call(Channel.send, (make_channel(s1, comp), p)))
                Channel.send(make_channel(s2, comp), p)
                if s1.w != s2.w:
                    raise core.HarnessError("translator validation: Channel.send differs for size %d compress %s" % (size, comp))
                n += 1
        o.validated = n
        o.samples.append({"concrete_cases_agreeing_with_cpython": n})
    return ob


def main():
    run = Run("C05", level="other")
    interp = Interp()
    thorough = run.tier == "thorough"
    run.assumptions = [
        "zlib.compress/decompress are an inverse pair; the image has >= 1 byte",
        "a blocking send()/os.write() that returns accepts at least 1 byte (socket contract)",
        "payloads of 2^31 bytes or more are outside the claim (32-bit length field; zlib worst-case growth)",
        "TLS sockets, Windows pipes and real kernel buffering are outside the claim",
    ]
    run.outside = ["more partial I/Os per call than the stated bound (cut paths are counted in the evidence)"]
    run.obligation("T0_translator", "interpreter == CPython for Channel.send at the threshold and chunk boundaries", translator_validation(run, interp))
    run.obligation("O1_framing", "wire == reference frame; recv returns the same packets, for 1..k back-to-back packets",
                   ob_framing(run, interp, 3 if thorough else 2))
    ios, faults = (4, 2) if thorough else (3, 1)
    run.obligation("O2_socket_stream", "SocketStream.read/write vs fragmentation, EAGAIN/timeout, errors and EOF",
                   ob_stream(run, interp, "socket", ios, faults))
    run.obligation("O2_pipe_stream", "PipeStream.read/write vs fragmentation, errors and EOF",
                   ob_stream(run, interp, "pipe", ios, faults))
    run.obligation("O3_cut_anywhere", "end of stream at any byte offset of a frame: EOFError + closed, never a packet", ob_cut(run, interp))
    run.note_encoded(interp)
    sys.exit(run.finish())


if __name__ == "__main__":
    main()
