"""Shared engine-B model for C13 / C14: threads sharing a connection.

CFGs are compiled (every run) from the real sources of
  AsyncResult.wait, AsyncResult.__call__, Connection.serve, Connection._dispatch,
  Connection._seq_request_callback, BgServingThread._bg_server
and executed with a small call stack per thread.  Primitives (receive lock,
condition variable, channel poll/recv, callback table, result fields) get a
bit-vector semantics.  Timeouts never fire in the model: a state that could only
be left by a timeout is exactly what C13/C14 forbid, so such states are *bad
states*, not transitions.  A zero timeout (the background thread's
SERVE_INTERVAL, read from the class) is non-blocking.
"""
import ast

import z3

from engine.bmc import CFG, BMC, State, EXIT, RAISED, bv
from engine.core import Unsupported, HarnessError

DEPTH = 5
PCW = 8
IW = 3           # width of request ids / small counters


def path(e):
    parts = []
    while isinstance(e, ast.Attribute):
        parts.append(e.attr)
        e = e.value
    if isinstance(e, ast.Name):
        parts.append(e.id)
        return ".".join(reversed(parts))
    return None


class Program(object):
    def __init__(self):
        from rpyc.core.protocol import Connection
        from rpyc.core.async_ import AsyncResult
        from rpyc.utils.helpers import BgServingThread
        self.funcs = {}
        off = 0
        for key, f in (("areq", Connection._async_request), ("wait", AsyncResult.wait), ("call", AsyncResult.__call__), ("serve", Connection.serve),
                       ("dispatch", Connection._dispatch), ("seqcb", Connection._seq_request_callback),
                       ("bg", BgServingThread._bg_server)):
            c = CFG(f, label_offset=off)
            off = max(c.nodes) + 1
            self.funcs[key] = c
        self.nodes = {}
        self.owner = {}
        for key, c in self.funcs.items():
            for l, n in c.nodes.items():
                self.nodes[l] = n
                self.owner[l] = key
        if max(self.nodes) >= (1 << PCW) - 2:
            raise Unsupported("engine B: too many locations")
        # locations the model can reach: exception edges are only taken from `raise` statements and no
        # handler ever matches (no exception is in flight in this model); the rest is not encoded
        reach = set()
        for key, c in self.funcs.items():
            todo = [c.entry]
            while todo:
                l = todo.pop()
                if l in reach or l not in self.nodes:
                    continue
                reach.add(l)
                n = self.nodes[l]
                for edge, tgt in n.succ.items():
                    if tgt is None:
                        continue
                    if edge == "exc" and n.kind != "raise":
                        continue
                    if edge == "match":
                        continue
                    todo.append(tgt)
        self.all_nodes = dict(self.nodes)
        self.nodes = dict((l, n) for l, n in self.nodes.items() if l in reach)
        self.serve_interval = BgServingThread.SERVE_INTERVAL

    def describe(self):
        return dict((c.name, c.describe()) for c in self.funcs.values())

    def gated_lines(self):
        return dict((key, c.lines()) for key, c in self.funcs.items())


class ServeModel(object):
    """nwait client threads (thread i waits for the reply to request i+1) and
    optionally one background serving thread doing `bg_iters` serve() calls"""

    def __init__(self, prog, nwait, with_bg, bg_iters=2, notify_before_dispatch=None):
        self.p = prog
        self.nwait = nwait
        self.with_bg = with_bg
        self.T = nwait + (1 if with_bg else 0)
        self.gfields = self.scan_generic_fields(prog)
        self.R = nwait                      # requests 1..R
        self.bg_iters = bg_iters
        self.bg_nonblocking = (prog.serve_interval == 0)
        self.step_no = 0
        self.inputs = []

    # ---- state ------------------------------------------------------------------------
    KNOWN_FIELDS = ("self._is_exc", "self._active", "self._obj", "self._is_ready")

    def scan_generic_fields(self, prog):
        """shared integer fields the encoded functions update with constants (counters, flags) that the model does not
        know by name: each becomes a shared bit-vector variable; its initial value is read from the constructor"""
        from rpyc.core.protocol import Connection
        import inspect
        import textwrap
        found = {}
        for l, n in prog.nodes.items():
            st = n.ast
            if n.kind != "stmt":
                continue
            tgt = None
            if isinstance(st, ast.AugAssign) and isinstance(st.op, (ast.Add, ast.Sub)) and isinstance(st.value, ast.Constant) and type(st.value.value) is int:
                tgt = st.target
            elif isinstance(st, ast.Assign) and len(st.targets) == 1 and isinstance(st.value, ast.Constant) and type(st.value.value) in (int, bool):
                tgt = st.targets[0]
            if isinstance(tgt, ast.Attribute) and isinstance(tgt.value, ast.Name) and tgt.value.id == "self":
                pth = "self." + tgt.attr
                if pth not in self.KNOWN_FIELDS:
                    found[pth] = 0
        if found:
            try:
                tree = ast.parse(textwrap.dedent(inspect.getsource(Connection.__init__)))
                for st in ast.walk(tree):
                    if isinstance(st, ast.Assign) and len(st.targets) == 1 and isinstance(st.value, ast.Constant) and type(st.value.value) in (int, bool):
                        tg = st.targets[0]
                        if isinstance(tg, ast.Attribute) and isinstance(tg.value, ast.Name) and tg.value.id == "self" and "self." + tg.attr in found:
                            found["self." + tg.attr] = int(st.value.value)
            except (OSError, TypeError, SyntaxError):
                pass
        return found

    def init(self):
        v = {}
        for g, v0 in self.gfields.items():
            v["g:" + g] = bv(v0 % 16, 4)
        v["recvlock"] = z3.BoolVal(False)
        v["cvlock"] = z3.BoolVal(False)
        v["inlen"] = bv(0, IW)
        for i in range(self.R):
            v["in%d" % i] = bv(0, IW)
        v["err"] = z3.BoolVal(False)
        for r in range(1, self.R + 1):
            v["out%d" % r] = z3.BoolVal(False)       # the request is on the wire and the peer has not answered it yet
            v["cb%d" % r] = z3.BoolVal(False)        # callback registered
            v["dropped%d" % r] = z3.BoolVal(False)   # the reply was dispatched while no callback was registered
            v["ready%d" % r] = z3.BoolVal(False)
            v["obj%d" % r] = bv(0, IW)
            v["disp%d" % r] = bv(0, 2)               # how often the frame was dispatched
        for t in range(self.T):
            is_bg = self.with_bg and t == self.T - 1
            # a client thread first issues its request (_async_request, frame 1) and then waits for the result (wait, frame 0)
            v["depth%d" % t] = bv(1 if is_bg else 2, 3)
            for d in range(DEPTH):
                if d == 0:
                    pc0 = self.p.funcs["bg"].entry if is_bg else self.p.funcs["wait"].entry
                elif d == 1 and not is_bg:
                    pc0 = self.p.funcs["areq"].entry
                else:
                    pc0 = 0
                v["pc%d_%d" % (t, d)] = bv(pc0, PCW)
            v["data%d" % t] = bv(0, IW)              # serve(): data
            v["seq%d" % t] = bv(0, IW)               # _dispatch(): seq
            v["cbf%d" % t] = z3.BoolVal(False)       # _seq_request_callback(): _callback is not None
            v["cidx%d" % t] = bv(0, IW)              # AsyncResult.__call__: which result
            v["waiting%d" % t] = z3.BoolVal(False)   # inside Condition.wait
            v["notified%d" % t] = z3.BoolVal(False)
            v["ret%d" % t] = z3.BoolVal(False)       # value returned by the last serve()
            v["iters%d" % t] = bv(0, IW)             # background thread: serve() calls made
            v["timeout%d" % t] = z3.BoolVal(False)   # wait() raised the timeout error
            v["eready%d" % t] = z3.BoolVal(False)    # own result already ready when the receive lock was last taken
        return v

    def is_bg(self, t):
        return self.with_bg and t == self.T - 1

    def finished(self, S, t):
        return S.v["depth%d" % t] == 0

    def cur_pc(self, S, t):
        d = S.v["depth%d" % t]
        e = S.v["pc%d_0" % t]
        for k in range(1, DEPTH):
            e = z3.If(d == k + 1, S.v["pc%d_%d" % (t, k)], e)
        return e

    def set_pc(self, Wk, S, t, label, guard=None):
        d = S.v["depth%d" % t]
        for k in range(DEPTH):
            g = d == k + 1
            Wk.set("pc%d_%d" % (t, k), bv(label, PCW), g if guard is None else z3.And(guard, g))

    def ret(self, Wk, S, t, guard=None):
        """pop the current frame; the caller resumes at the call node's successor (stored in its pc)"""
        d = S.v["depth%d" % t]
        Wk.set("depth%d" % t, d - 1, guard)

    def goto(self, Wk, S, t, label, guard=None):
        if label == EXIT or label == RAISED:
            self.ret(Wk, S, t, guard)
        else:
            self.set_pc(Wk, S, t, label, guard)

    def call(self, Wk, S, t, callee, return_to, guard=None):
        """push a frame for `callee`; the caller's pc is advanced to `return_to` first"""
        d = S.v["depth%d" % t]
        self.goto_at_depth(Wk, S, t, return_to, guard)
        Wk.set("err", True, z3.And(d == DEPTH, guard) if guard is not None else d == DEPTH)
        for k in range(1, DEPTH):
            g = d == k
            Wk.set("pc%d_%d" % (t, k), bv(self.p.funcs[callee].entry, PCW), g if guard is None else z3.And(guard, g))
        Wk.set("depth%d" % t, d + 1, guard)

    def goto_at_depth(self, Wk, S, t, label, guard):
        if label == EXIT or label == RAISED:
            # a call in tail position: the caller's frame must still return afterwards; mark it with pc 0
            label = 0
        self.set_pc(Wk, S, t, label, guard)

    # ---- expression truth values -------------------------------------------------------------
    def ready_of(self, S, idx_term):
        e = z3.BoolVal(False)
        for r in range(1, self.R + 1):
            e = z3.If(idx_term == r, S.v["ready%d" % r], e)
        return e

    def self_idx(self, S, t, fn):
        if fn == "wait":
            return bv(t + 1, IW)
        return S.v["cidx%d" % t]

    def cond(self, e, S, t, fn):
        """truth value of a branch condition (no side effects) or None if it has effects"""
        if isinstance(e, ast.BoolOp):
            vals = [self.cond(x, S, t, fn) for x in e.values]
            if any(v is None for v in vals):
                return None
            return z3.And(*vals) if isinstance(e.op, ast.And) else z3.Or(*vals)
        if isinstance(e, ast.UnaryOp) and isinstance(e.op, ast.Not):
            v = self.cond(e.operand, S, t, fn)
            return None if v is None else z3.Not(v)
        p = path(e) if isinstance(e, (ast.Attribute, ast.Name)) else None
        if p == "self._is_ready":
            return self.ready_of(S, self.self_idx(S, t, fn))
        if p == "self.expired":
            return z3.BoolVal(False)              # timeouts never fire in the model
        if p == "self._active":
            return z3.ULT(S.v["iters%d" % t], self.bg_iters)
        if p == "data":
            return S.v["data%d" % t] != 0
        if p == "wait_for_lock":
            return z3.BoolVal(True)               # every caller in the model passes the default
        if p in self.gfields:
            return S.v["g:" + p] != 0
        if isinstance(e, ast.Call):
            cp = path(e.func)
            if cp == "self._ttl.expired":
                return z3.BoolVal(False)
            return None
        if isinstance(e, ast.Compare) and len(e.ops) == 1 and isinstance(e.left, ast.Attribute) and path(e.left) in self.gfields and \
                isinstance(e.comparators[0], ast.Constant) and type(e.comparators[0].value) in (int, bool):
            gv, cv = S.v["g:" + path(e.left)], bv(int(e.comparators[0].value) % 16, 4)
            op = e.ops[0]
            tbl = {ast.Eq: lambda: gv == cv, ast.NotEq: lambda: gv != cv, ast.Gt: lambda: z3.UGT(gv, cv), ast.GtE: lambda: z3.UGE(gv, cv),
                   ast.Lt: lambda: z3.ULT(gv, cv), ast.LtE: lambda: z3.ULE(gv, cv)}
            if type(op) in tbl:
                return tbl[type(op)]()
        if isinstance(e, ast.Compare) and len(e.ops) == 1:
            l, r = e.left, e.comparators[0]
            lp, rp = path(l) if isinstance(l, (ast.Attribute, ast.Name)) else None, path(r) if isinstance(r, (ast.Attribute, ast.Name)) else None
            if lp == "msg" and rp and rp.startswith("consts.MSG_") and isinstance(e.ops[0], ast.Eq):
                return z3.BoolVal(rp == "consts.MSG_REPLY")       # the peer of the model only sends replies
            if lp == "_callback" and isinstance(r, ast.Constant) and r.value is None:
                f = S.v["cbf%d" % t]
                return f if isinstance(e.ops[0], ast.IsNot) else z3.Not(f)
            if lp == "self._callback" and isinstance(r, ast.Constant) and r.value is None:
                return z3.BoolVal(isinstance(e.ops[0], ast.Is))      # BgServingThread without an error callback
            if isinstance(e.ops[0], (ast.IsNot, ast.Is)) and isinstance(r, ast.Constant) and r.value is None and isinstance(l, ast.Subscript):
                # self._config["logger"] is not None  -> no logger in the model
                return z3.BoolVal(isinstance(e.ops[0], ast.Is))
        raise Unsupported("engine B: condition %s" % ast.dump(e)[:120])

    # ---- one location ------------------------------------------------------------------------------
    def step(self, S, t):
        self.step_no += 1
        pc = self.cur_pc(S, t)
        result = S.copy()
        enabled_terms = []
        for label, node in sorted(self.p.nodes.items()):
            Wk = S.copy()
            en = self.exec_node(node, self.p.owner[label], Wk, S, t)
            enabled_terms.append(z3.Implies(pc == label, en))
            for k in result.v:
                if not z3.eq(Wk.v[k], S.v[k]):
                    result.v[k] = z3.If(pc == label, Wk.v[k], result.v[k])
        # pc == 0: a frame whose call was in tail position returns
        W0 = S.copy()
        self.ret(W0, S, t)
        for k in result.v:
            if not z3.eq(W0.v[k], S.v[k]):
                result.v[k] = z3.If(pc == 0, W0.v[k], result.v[k])
        return z3.And(*enabled_terms), result

    def exec_node(self, node, fn, Wk, S, t):
        """apply the effect of `node` to Wk; returns the enabledness condition"""
        T = z3.BoolVal(True)
        k = node.kind
        s = node.ast
        nxt = node.succ.get("next")
        if k == "nop":
            self.goto(Wk, S, t, nxt)
            return T
        if k == "enter":                      # with self._recv_event:
            if path(s) != "self._recv_event":
                raise Unsupported("engine B: with %s" % ast.dump(s)[:60])
            Wk.set("cvlock", True)
            self.goto(Wk, S, t, nxt)
            return z3.Not(S.v["cvlock"])
        if k == "exit":
            Wk.set("err", True, z3.Not(S.v["cvlock"]))
            Wk.set("cvlock", False)
            self.goto(Wk, S, t, nxt)
            return T
        if k == "catch":
            self.goto(Wk, S, t, node.succ["nomatch"])     # no exception is ever in flight in this model
            return T
        if k == "raise":
            if fn == "wait":
                Wk.set("timeout%d" % t, True)
            self.goto(Wk, S, t, node.succ.get("exc", RAISED))
            return T
        if k == "for":
            if path(s.iter) != "self._callbacks":
                raise Unsupported("engine B: for loop over %s" % ast.dump(s.iter)[:60])
            self.goto(Wk, S, t, node.succ["false"])        # no callbacks are registered in the model
            return T
        if k == "branch":
            p = path(s.operand.func) if (isinstance(s, ast.UnaryOp) and isinstance(s.operand, ast.Call)) else None
            if p == "self._recvlock.acquire":
                a = s.operand.args
                if not (a and isinstance(a[0], ast.Constant) and a[0].value is False):
                    raise Unsupported("engine B: blocking acquire of the receive lock")
                got = z3.Not(S.v["recvlock"])
                Wk.set("recvlock", True, got)
                if t < self.nwait:
                    # was the thread's own result already there when it took the receive lock?
                    Wk.set("eready%d" % t, S.v["ready%d" % (t + 1)], got)
                self.goto(Wk, S, t, node.succ["true"], z3.Not(got))
                self.goto(Wk, S, t, node.succ["false"], got)
                return T
            c = self.cond(s, S, t, fn)
            if c is None:
                raise Unsupported("engine B: branch with effects at line %d" % node.lineno)
            self.goto(Wk, S, t, node.succ["true"], c)
            self.goto(Wk, S, t, node.succ["false"], z3.Not(c))
            return T
        if k == "return":
            v = s.value
            if v is None or isinstance(v, ast.Constant):
                if fn == "serve":
                    Wk.set("ret%d" % t, bool(v.value) if v is not None else False)
                self.goto(Wk, S, t, nxt)
                return T
            # return [<pure conditions> and] self._recv_event.wait(timeout.timeleft())
            wcall, pre = None, []
            if isinstance(v, ast.Call) and path(v.func) == "self._recv_event.wait":
                wcall = v
            elif isinstance(v, ast.BoolOp) and isinstance(v.op, ast.And) and isinstance(v.values[-1], ast.Call) and \
                    path(v.values[-1].func) == "self._recv_event.wait":
                wcall, pre = v.values[-1], v.values[:-1]
            if wcall is not None:
                pcs = [self.cond(x, S, t, fn) for x in pre]
                if any(x is None for x in pcs):
                    raise Unsupported("engine B: return expression with effects at line %d" % node.lineno)
                pre_c = z3.And(*pcs) if pcs else z3.BoolVal(True)
                nb = z3.BoolVal(self.bg_nonblocking and self.is_bg(t))
                waiting = S.v["waiting%d" % t]
                # the leading conditions are false: returns False without waiting
                gf = z3.And(z3.Not(waiting), z3.Not(pre_c))
                Wk.set("ret%d" % t, False, gf)
                self.goto(Wk, S, t, nxt, gf)
                # phase 1: enter the wait (release the condition's lock); waiting without holding it is an error
                g1 = z3.And(z3.Not(waiting), z3.Not(nb), pre_c)
                Wk.set("err", True, z3.And(g1, z3.Not(S.v["cvlock"])))
                Wk.set("cvlock", False, g1)
                Wk.set("waiting%d" % t, True, g1)
                Wk.set("notified%d" % t, False, g1)
                # non-blocking (zero timeout): returns False at once
                g0 = z3.And(z3.Not(waiting), nb, pre_c)
                Wk.set("ret%d" % t, False, g0)
                self.goto(Wk, S, t, nxt, g0)
                # phase 2: woken by a notification, re-acquire the condition's lock and return True
                g2 = waiting
                Wk.set("cvlock", True, g2)
                Wk.set("waiting%d" % t, False, g2)
                Wk.set("ret%d" % t, True, g2)
                self.goto(Wk, S, t, nxt, g2)
                return z3.Implies(waiting, z3.And(S.v["notified%d" % t], z3.Not(S.v["cvlock"])))
            raise Unsupported("engine B: return expression at line %d" % node.lineno)
        if k == "stmt":
            if isinstance(s, ast.Delete) or isinstance(s, ast.Pass):
                self.goto(Wk, S, t, nxt)
                return T
            if isinstance(s, ast.AugAssign) and isinstance(s.target, ast.Attribute) and path(s.target) in self.gfields:
                g = "g:" + path(s.target)
                cst = bv(int(s.value.value) % 16, 4)
                new = S.v[g] + cst if isinstance(s.op, ast.Add) else S.v[g] - cst
                # a counter leaving 0..15 is outside the model
                Wk.set("err", True, (S.v[g] == 15) if isinstance(s.op, ast.Add) else z3.BoolVal(False))
                Wk.set(g, new)
                self.goto(Wk, S, t, nxt)
                return T
            if isinstance(s, ast.Assign) and isinstance(s.targets[0], ast.Attribute) and path(s.targets[0]) in self.gfields:
                Wk.set("g:" + path(s.targets[0]), bv(int(s.value.value) % 16, 4))
                self.goto(Wk, S, t, nxt)
                return T
            if isinstance(s, ast.Assign):
                tgt = s.targets[0]
                tp = path(tgt) if isinstance(tgt, (ast.Name, ast.Attribute)) else None
                if tp == "timeout":
                    self.goto(Wk, S, t, nxt)
                    return T
                if fn == "areq" and tp == "seq":
                    self.goto(Wk, S, t, nxt)          # the thread's own sequence number (thread t issues request t + 1)
                    return T
                if fn == "areq" and isinstance(tgt, ast.Subscript) and path(tgt.value) == "self._request_callbacks":
                    if t < self.nwait:
                        Wk.set("cb%d" % (t + 1), True)
                    self.goto(Wk, S, t, nxt)
                    return T
                if tp == "data":
                    # data = self._channel.poll(timeout) and self._channel.recv()
                    v = s.value
                    ok = isinstance(v, ast.BoolOp) and isinstance(v.op, ast.And) and len(v.values) == 2 and \
                        all(isinstance(x, ast.Call) for x in v.values) and path(v.values[0].func) == "self._channel.poll" and \
                        path(v.values[1].func) == "self._channel.recv"
                    if not ok:
                        raise Unsupported("engine B: receive statement at line %d" % node.lineno)
                    nb = z3.BoolVal(self.bg_nonblocking and self.is_bg(t))
                    empty = S.v["inlen"] == 0
                    # pop the head of the inbox
                    Wk.set("data%d" % t, S.v["in0"], z3.Not(empty))
                    for i in range(self.R - 1):
                        Wk.set("in%d" % i, S.v["in%d" % (i + 1)], z3.Not(empty))
                    Wk.set("in%d" % (self.R - 1), 0, z3.Not(empty))
                    Wk.set("inlen", S.v["inlen"] - 1, z3.Not(empty))
                    Wk.set("data%d" % t, 0, z3.And(empty, nb))
                    self.goto(Wk, S, t, nxt)
                    return z3.Or(z3.Not(empty), nb)       # a blocking poll waits for data
                if isinstance(tgt, ast.Tuple) and [path(x) for x in tgt.elts] == ["msg", "seq", "args"]:
                    Wk.set("seq%d" % t, S.v["data%d" % t])
                    for r in range(1, self.R + 1):
                        d = S.v["disp%d" % r]
                        Wk.set("disp%d" % r, z3.If(d == 3, d, d + 1), S.v["data%d" % t] == r)
                    self.goto(Wk, S, t, nxt)
                    return T
                if tp == "obj":
                    self.goto(Wk, S, t, nxt)
                    return T
                if tp == "_callback":
                    v = s.value
                    if not (isinstance(v, ast.Call) and path(v.func) == "self._request_callbacks.pop"):
                        raise Unsupported("engine B: callback lookup at line %d" % node.lineno)
                    seq = S.v["seq%d" % t]
                    f = z3.BoolVal(False)
                    for r in range(1, self.R + 1):
                        f = z3.If(seq == r, S.v["cb%d" % r], f)
                        Wk.set("cb%d" % r, False, seq == r)
                        Wk.set("dropped%d" % r, True, z3.And(seq == r, z3.Not(S.v["cb%d" % r])))
                    Wk.set("cbf%d" % t, f)
                    self.goto(Wk, S, t, nxt)
                    return T
                if tp in ("self._is_exc", "self._active", "debug_msg"):
                    self.goto(Wk, S, t, nxt)
                    return T
                if tp == "self._obj":
                    idx = S.v["cidx%d" % t]
                    for r in range(1, self.R + 1):
                        Wk.set("obj%d" % r, S.v["seq%d" % t], idx == r)
                    self.goto(Wk, S, t, nxt)
                    return T
                if tp == "self._is_ready":
                    idx = S.v["cidx%d" % t]
                    for r in range(1, self.R + 1):
                        Wk.set("ready%d" % r, True, idx == r)
                    self.goto(Wk, S, t, nxt)
                    return T
                raise Unsupported("engine B: assignment to %s at line %d" % (tp, node.lineno))
            if isinstance(s, ast.Expr) and isinstance(s.value, ast.Call):
                p = path(s.value.func)
                if p == "self._conn.serve":
                    if fn == "bg":
                        Wk.set("iters%d" % t, S.v["iters%d" % t] + 1)
                    self.call(Wk, S, t, "serve", nxt)
                    return T
                if p == "self._dispatch":
                    self.call(Wk, S, t, "dispatch", nxt)
                    return T
                if fn == "areq" and p == "self._send":
                    if t < self.nwait:
                        Wk.set("out%d" % (t + 1), True)    # the request has left: from now on the peer may answer it
                    self.goto(Wk, S, t, nxt)
                    return T
                if p == "self._seq_request_callback":
                    self.call(Wk, S, t, "seqcb", nxt)
                    return T
                if p == "_callback":
                    Wk.set("cidx%d" % t, S.v["seq%d" % t])
                    self.call(Wk, S, t, "call", nxt)
                    return T
                if p == "self._recvlock.release":
                    Wk.set("err", True, z3.Not(S.v["recvlock"]))
                    Wk.set("recvlock", False)
                    self.goto(Wk, S, t, nxt)
                    return T
                if p == "self._recv_event.notify_all":
                    Wk.set("err", True, z3.Not(S.v["cvlock"]))
                    for u in range(self.T):
                        Wk.set("notified%d" % u, True, S.v["waiting%d" % u])
                    self.goto(Wk, S, t, nxt)
                    return T
                if p == "self._dispatch_request":
                    Wk.set("err", True)        # the model's peer only sends replies: reaching this is a model error
                    self.goto(Wk, S, t, nxt)
                    return T
                if p in ("time.sleep", "self.close", "self._callback", "cb"):
                    self.goto(Wk, S, t, nxt)
                    return T
                if isinstance(s.value.func, ast.Attribute) and s.value.func.attr in ("debug", "info", "warn", "warning", "exception"):
                    self.goto(Wk, S, t, nxt)
                    return T
            if isinstance(s, ast.Expr) and isinstance(s.value, ast.Constant):
                self.goto(Wk, S, t, nxt)
                return T
            raise Unsupported("engine B: statement at line %d of %s: %s" % (node.lineno, fn, ast.dump(s)[:100]))
        raise Unsupported("engine B: location kind %s" % k)

    def is_local(self, node, fn):
        """does the location touch only thread-local state?  (context switches are only considered
        before non-local locations: local steps commute with everything another thread does)"""
        k, s = node.kind, node.ast
        if k in ("nop", "catch", "for", "raise"):
            return True
        if k in ("enter", "exit"):
            return False
        if k == "return":
            return s.value is None or isinstance(s.value, ast.Constant)
        if k == "branch":
            src = ast.dump(s)
            return not any(w in src for w in ("_recvlock", "_is_ready", "_active", "expired") + tuple(g.split(".", 1)[1] for g in self.gfields))
        if k == "stmt":
            if isinstance(s, (ast.Delete, ast.Pass)):
                return True
            if isinstance(s, ast.Assign):
                tgt = s.targets[0]
                tp = path(tgt) if isinstance(tgt, (ast.Name, ast.Attribute)) else None
                if tp in ("timeout", "obj", "self._is_exc", "debug_msg") or (fn == "areq" and tp == "seq"):
                    return True
                if isinstance(tgt, ast.Tuple):
                    return True
                return False
            if isinstance(s, ast.Expr) and isinstance(s.value, ast.Call):
                p = path(s.value.func)
                return p in ("self._conn.serve", "self._dispatch", "self._seq_request_callback", "_callback", "time.sleep", "cb")
            if isinstance(s, ast.Expr) and isinstance(s.value, ast.Constant):
                return True
        return False

    def local_labels(self):
        return [l for l, n in self.p.nodes.items() if self.is_local(n, self.p.owner[l])] + [0]

    # ---- the peer -----------------------------------------------------------------------------------
    def env_step(self, S, choice):
        """the peer puts the reply to request `choice` on the wire (any outstanding one, any time)"""
        Wk = S.copy()
        en = z3.Or(*[S.v["out%d" % r] for r in range(1, self.R + 1)])       # the peer can act iff a reply is outstanding
        self.valid_choice = z3.Or(*[z3.And(choice == r, S.v["out%d" % r]) for r in range(1, self.R + 1)])
        for r in range(1, self.R + 1):
            g = z3.And(choice == r, S.v["out%d" % r])
            Wk.set("out%d" % r, False, g)
            for i in range(self.R):
                Wk.set("in%d" % i, r, z3.And(g, S.v["inlen"] == i))
            Wk.set("inlen", S.v["inlen"] + 1, g)
        return en, Wk

    # ---- properties ------------------------------------------------------------------------------------
    def blocked_in_poll(self, S, t):
        """thread t sits at the receive statement with an empty inbox (it holds the receive lock)"""
        pc = self.cur_pc(S, t)
        labels = [l for l, n in self.p.funcs["serve"].nodes.items() if n.kind == "stmt" and isinstance(n.ast, ast.Assign) and
                  path(n.ast.targets[0]) == "data"]
        at = z3.Or(*[pc == l for l in labels])
        nb = self.bg_nonblocking and self.is_bg(t)
        return z3.And(at, S.v["inlen"] == 0, z3.BoolVal(not nb))

    def blocked_in_wait(self, S, t):
        return z3.And(S.v["waiting%d" % t], z3.Not(S.v["notified%d" % t]))

    def stall(self, S, t):
        """C14: thread t's own result is ready, yet t can only go on by a timeout or unrelated traffic"""
        own = S.v["ready%d" % (t + 1)]
        return z3.And(own, z3.Or(self.blocked_in_poll(S, t), self.blocked_in_wait(S, t)))

    def bad_safety(self, S):
        bad = [S.v["err"]]
        for r in range(1, self.R + 1):
            bad.append(z3.UGT(S.v["disp%d" % r], 1))                                   # a frame dispatched twice
            bad.append(z3.And(S.v["ready%d" % r], S.v["obj%d" % r] != r))               # someone else's reply
            bad.append(S.v["dropped%d" % r])                                           # a reply dispatched to nobody: its request never completes
        for t in range(self.nwait):
            bad.append(S.v["timeout%d" % t])
            bad.append(z3.And(S.v["depth%d" % t] == 0, z3.Not(S.v["ready%d" % (t + 1)])))   # wait() returned without its reply
        return z3.Or(*bad)

    def lost_wakeup(self, S):
        """C13: a reply is in the inbox, nobody is receiving and every client is asleep in Condition.wait"""
        if self.with_bg:
            # the real background thread never stops and never sleeps on the condition (zero timeout): it will receive
            # the reply and notify; "the bounded background thread has finished" would be an artefact of the bound
            return z3.BoolVal(False)
        nobody = z3.And(*[z3.Or(self.blocked_in_wait(S, t), S.v["depth%d" % t] == 0) for t in range(self.T)])
        return z3.And(S.v["inlen"] != 0, nobody, z3.Not(S.v["recvlock"]))

    def all_done(self, S):
        return z3.And(*[S.v["depth%d" % t] == 0 for t in range(self.nwait)])


class ServeBMC(BMC):
    """BMC with the peer as an extra 'thread': scheduling value T means the peer acts"""

    def build(self):
        m = self.model
        init = m.init()
        S = State(init)
        self.states.append(S)
        nact = self.nthreads + 1
        tw = max(1, (nact - 1).bit_length())
        locals_ = m.local_labels()
        self.noenabled = []
        prev = None
        preempt = bv(0, 4)
        for t in range(self.steps):
            s_t = z3.BitVec("sched_%d" % t, tw)
            self.sched.append(s_t)
            if nact < (1 << tw):
                self.constraints.append(z3.ULT(s_t, nact))
            cand = []
            for tid in range(self.nthreads):
                en, S2 = m.step(S, tid)
                en = z3.And(en, z3.Not(m.finished(S, tid)))
                cand.append((en, S2))
                if prev is not None:
                    # partial-order reduction: a thread that just ran and now stands at a thread-local
                    # location keeps running (no context switch before local steps)
                    pc = m.cur_pc(S, tid)
                    at_local = z3.Or(*[pc == l for l in locals_])
                    self.constraints.append(z3.Implies(z3.And(prev == tid, at_local, en), s_t == tid))
            choice = z3.BitVec("peer_%d" % t, IW)
            m.inputs.append(choice)
            en_env, S_env = m.env_step(S, choice)
            cand.append((en_env, S_env))
            self.constraints.append(z3.Implies(z3.And(s_t == self.nthreads, en_env), m.valid_choice))
            any_enabled = z3.Or(*[en for en, _ in cand])
            all_fin = z3.And(*[m.finished(S, tid) for tid in range(self.nthreads)])
            self.deadlocks.append(z3.And(z3.Not(any_enabled), z3.Not(all_fin)))
            self.noenabled.append(z3.Not(any_enabled))
            if self.max_preemptions is not None and prev is not None:
                # a pre-emption = switching away from a thread that could have continued (the peer's moves are free)
                was = z3.Or(*[z3.And(prev == tid, cand[tid][0]) for tid in range(self.nthreads)])
                pvar = z3.BitVec("preempt@%d" % (t + 1), 4)
                self.constraints.append(pvar == z3.If(z3.And(s_t != prev, was, s_t != self.nthreads), preempt + 1, preempt))
                preempt = pvar
                self.constraints.append(z3.ULE(preempt, self.max_preemptions))
            prev = s_t
            self.constraints.append(z3.Implies(any_enabled, z3.Or(*[z3.And(s_t == a, cand[a][0]) for a in range(nact)])))
            nv = {}
            for k in S.v:
                e = S.v[k]
                for a in range(nact):
                    if not z3.eq(cand[a][1].v[k], S.v[k]):
                        e = z3.If(z3.And(any_enabled, s_t == a), cand[a][1].v[k], e)
                fresh = z3.Const("%s@%d" % (k, t + 1), S.v[k].sort())
                self.constraints.append(fresh == e)
                nv[k] = fresh
            S = State(nv)
            self.states.append(S)


def trace_of(prog, model, bmc, m):
    """[(actor, position, detail)] of a counterexample: actor = thread id or 'peer'"""
    sched = bmc.schedule(m)
    names = []
    for t in range(model.T):
        names += ["depth%d" % t, "waiting%d" % t] + ["pc%d_%d" % (t, d) for d in range(DEPTH)]
    tr = bmc.trace(m, names + ["inlen"])
    out = []
    for i, a in enumerate(sched):
        row = tr[i]
        if a == model.T:
            ch = m.eval(model.inputs[i], model_completion=True).as_long()
            if 1 <= ch <= model.R and tr[i + 1]["inlen"] == row["inlen"] + 1:
                out.append(("peer", "reply", ch))
            continue
        d = row["depth%d" % a]
        if d == 0:
            continue
        pc = row["pc%d_%d" % (a, d - 1)]
        node = prog.nodes.get(pc)
        if node is None:
            continue        # a frame returning (no source line)
        nxt = tr[i + 1]
        if all(nxt[k] == row[k] for k in row if k.startswith(("pc%d_" % a, "depth%d" % a, "waiting%d" % a))):
            continue        # stutter
        out.append((a, node.lineno, prog.owner[pc] + (":wake" if row["waiting%d" % a] else "")))
    return out
