"""C19 -- bytes on the wire are those of the published 5.x protocol.

Real brine.dump / brine.load / Channel.send / consts / handler table against an
independent reference (specs/ref_wire.py, specs/plain_sym.ref_encode) typed in
from the published format.
"""
import inspect
import sys

import z3

from engine import core, values as V
from engine.core import ctx, explore
from engine.harness import Run, Acc, par_explore
from engine.interp import Interp
from engine.rope import Rope, Field, Lit
from engine.values import Sym
from specs import plain_sym as P
from specs import ref_wire as W
from props import c04, c05


def replay_encode(expr):
    return c04.PRELUDE + '''
sys.path.insert(0, "/verif")
from specs import ref_wire as W
v = %s
real = brine.dump(v)
ref = W.encode(v)
print("value", ascii(v)[:120]); print("real", real[:40].hex(), len(real)); print("ref ", ref[:40].hex(), len(ref))
bad = real != ref
try:
    back = brine.load(ref)
    if not same(back, v): bad = True; print("real decoder reads the reference encoding differently")
except Exception as e:
    bad = True; print("real decoder rejects the reference encoding:", type(e).__name__, e)
if bad:
    print("REPRODUCED"); sys.exit(1)
''' % expr


def ob_encode(run, interp, depth, arity):
    from rpyc.core import brine

    def ob(o):
        o.symbolic = ["plain value: kind at every position exhaustive, contents symbolic (as C04)"]
        o.bounds = {"nesting_depth": depth, "max_container_arity": arity}
        acc = Acc()

        def harness(c):
            v = P.gen_value(c, depth, arity)
            c.notes["v"] = v
            return interp.call(brine.dump, (v,))

        def on_path(r):
            c = r.ctx
            if r.outcome in ("abort",) or any(e[0] == "int_too_long" for e in c.log):
                return
            if r.outcome == "bound":
                raise core.BoundExceeded(str(r.exc))
            v = c.notes["v"]
            bad = None
            model = None
            if r.outcome == "raise":
                bad = "dump raised %s" % type(r.exc).__name__
            else:
                c.frozen = False      # the reference encoder takes its own length-class decisions; any it can
                try:                  # still take both ways is a case the implementation did not distinguish
                    n_before = len(c.prefix)
                    ref = P._enc(v)
                finally:
                    c.frozen = True
                eq = P.rope_matches(Rope.of(r.value), ref)
                if eq is False:
                    bad = "encoding differs from the published (shortest) form"
                elif eq is not True:
                    ok, model = c.must_hold(eq)
                    if not ok:
                        bad = "encoding differs from the published (shortest) form"
            acc.inc("checked")
            if len(o.samples) < 5:
                o.samples.append({"shape": c04.shape_sig(v), "real": str(r.value)[:100]})
            if bad and o.verdict != "violated":
                m = model or c.check_model()
                if m is None:
                    return
                expr = c04.expr_of(v, m)
                run.replay(o, "encode:" + c04.sig_for(bad, v), "%s for %s" % (bad, expr[:160]), replay_encode(expr))

        n, incomplete = par_explore(run, o, _forking(harness), on_path, acc, split_depth=4)
        o.paths = dict(acc.counts, total=n)
        if incomplete:
            o.verdict = "inconclusive"
            o.detail = incomplete
        if not acc.counts.get("checked"):
            raise core.HarnessError("reachability twin: nothing encoded")
    return ob


def _forking(h):
    return h


def ob_encode_refsplit(run, interp, depth, arity):
    """the reference encoder runs *first* on each path so that its length-class
    decisions split the path; then the real encoder must agree on each class"""
    from rpyc.core import brine

    def ob(o):
        o.symbolic = ["plain value: kind at every position exhaustive, contents symbolic (as C04)"]
        o.bounds = {"nesting_depth": depth, "max_container_arity": arity}
        acc = Acc()

        def harness(c):
            v = P.gen_value(c, depth, arity)
            c.notes["v"] = v
            c.notes["ref"] = P._enc(v)
            return interp.call(brine.dump, (v,))

        def on_path(r):
            c = r.ctx
            if r.outcome in ("abort",) or any(e[0] == "int_too_long" for e in c.log):
                return
            if r.outcome == "bound":
                raise core.BoundExceeded(str(r.exc))
            v = c.notes["v"]
            if "ref" not in c.notes:
                return
            bad = None
            model = None
            if r.outcome == "raise":
                if isinstance(r.exc, ValueError) and "Exceeds the limit" in str(r.exc):
                    return
                bad = "dump raised %s" % type(r.exc).__name__
            else:
                eq = P.rope_matches(Rope.of(r.value), c.notes["ref"])
                if eq is False:
                    bad = "encoding differs from the published (shortest) form"
                elif eq is not True:
                    ok, model = c.must_hold(eq)
                    if not ok:
                        bad = "encoding differs from the published (shortest) form"
            acc.inc("checked")
            if len(o.samples) < 5:
                o.samples.append({"shape": c04.shape_sig(v), "real": str(r.value)[:100]})
            if bad and len(o.violations) < 4:
                m = model or c.check_model()
                if m is None:
                    return
                expr = c04.expr_of(v, m)
                sig = "encode:" + c04.sig_for(bad, v)
                if any(x["signature"] == sig for x in o.violations):
                    return
                run.replay(o, sig, "%s for %s" % (bad, expr[:160]), replay_encode(expr))

        n, incomplete = par_explore(run, o, harness, on_path, acc, split_depth=4)
        o.paths = dict(acc.counts, total=n)
        if incomplete:
            o.verdict = "inconclusive"
            o.detail = incomplete
        if not acc.counts.get("checked"):
            raise core.HarnessError("reachability twin: nothing encoded")
    return ob


def ob_decode_conforming(run, interp):
    """anything a conforming implementation emits is accepted and means the same:
    the real decoder on reference encodings, including the non-shortest length
    forms the format permits (L1/L4 forms for short items)"""
    from rpyc.core import brine

    def ob(o):
        o.symbolic = ["leaf value contents symbolic; which length form the peer chose: exhaustive over the forms the format permits"]
        acc = Acc()

        def alt_forms(c, v):
            """reference encoding of v, choosing among all conforming length forms"""
            t = V.pytype_of(v)
            if t is bytes or t is str:
                if t is str:
                    r = None
                    n = v.ulen
                    head = [Lit(bytes([W.T_UNICODE]))]
                    body = [("text", v)]
                else:
                    r = Rope.of(v)
                    n = r.length_term()
                    head = []
                    body = list(r.segs)
                forms = ["short", "l1", "l4"]
                f = forms[c.choose(3, "length-form")]
                c.notes["form"] = f
                if f == "short":
                    return head + P._len_head(c, n, W.T_BYTES_1, W.T_BYTES_L1, W.T_BYTES_L4, W.T_EMPTY_BYTES) + \
                        ([] if c.must_hold(n == 0)[0] else body)
                if f == "l1":
                    c.assume(n < 256)
                    return head + [Lit(bytes([W.T_BYTES_L1])), Field(1, n)] + ([] if c.must_hold(n == 0)[0] else body)
                return head + [Lit(bytes([W.T_BYTES_L4])), Field(4, n)] + ([] if c.must_hold(n == 0)[0] else body)
            if t is int and isinstance(v, Sym):
                from engine.models import DIGITS, digits_axioms
                c.add_fact(digits_axioms(v.e))
                f = ["short", "l1", "l4"][c.choose(3, "int-form")]
                c.notes["form"] = f
                nd = DIGITS(v.e)
                from engine import INT_MAX_STR_DIGITS as lim
                c.assume(z3.And(v.e < 10 ** lim, v.e > -(10 ** lim)))
                if f == "short":
                    return P._enc(v)
                if f == "l1":
                    c.assume(nd < 256)
                    return [Lit(bytes([W.T_INT_L1])), Field(1, nd), ("digits", v.e)]
                return [Lit(bytes([W.T_INT_L4])), Field(4, nd), ("digits", v.e)]
            if t is tuple:
                f = ["short", "l1", "l4"][c.choose(3, "tuple-form")]
                c.notes["form"] = f
                n = len(v)
                items = []
                for x in v:
                    items += P._enc(x)
                if f == "short":
                    return P._enc(v)
                if f == "l1":
                    return [Lit(bytes([W.T_TUP_L1, n]))] + items
                return [Lit(bytes([W.T_TUP_L4]) + n.to_bytes(4, "big"))] + items
            return P._enc(v)

        def materialize(c, segs):
            """turn reference segments (with abstract payload markers) into a rope the decoder can read"""
            from engine.models import text_encode, SymText
            out = []
            for s in segs:
                if isinstance(s, tuple):
                    if s[0] == "text":
                        out += list(Rope.blob("utf8", s[1].ulen, origin=("text", s[1], "strict"), assume_nonneg=False).segs)
                    elif s[0] == "digits":
                        t = SymText.digits(s[1])
                        out += list(Rope.blob("utf8", t.ulen, origin=("text", t, "strict"), assume_nonneg=False).segs)
                    elif s[0] == "fp":
                        from engine.rope import Base, Slice
                        out.append(Slice(Base("fp", 8, origin=("fp", s[1], "d")), 0, 8))
                else:
                    out.append(s)
            return Rope(out)

        def harness(c):
            kinds = ["bytes", "str", "int", "float", "complex", "bool", "tuple", "slice", "frozenset"]
            k = kinds[c.choose(len(kinds), "kind")]
            if k in P.LEAF_KINDS:
                v = P.gen_leaf(c, k)
                if k == "str":
                    c.assume(z3.Not(v.surr))
            elif k == "tuple":
                n = c.choose(4, "arity")
                v = tuple(P.gen_leaf(c, "int") if i % 2 == 0 else P.gen_leaf(c, "bytes") for i in range(n))
            elif k == "slice":
                v = P.SymSlice(P.gen_leaf(c, "int"), None, P.gen_leaf(c, "int"))
            else:
                v = P.SymFrozenset([P.gen_leaf(c, "int")])
            c.notes["v"] = v
            wire = materialize(c, alt_forms(c, v))
            c.notes["wire"] = wire
            return interp.call(brine.load, (wire,))

        def on_path(r):
            c = r.ctx
            if r.outcome == "abort" or "wire" not in c.notes:
                return
            if r.outcome == "bound":
                raise core.BoundExceeded(str(r.exc))
            v = c.notes["v"]
            bad = None
            model = None
            if r.outcome == "raise":
                bad = "real decoder rejects a conforming encoding (%s)" % type(r.exc).__name__
            else:
                eq = P.same(v, r.value)
                if eq is False:
                    bad = "real decoder reads a conforming encoding as a different value"
                elif eq is not True:
                    ok, model = c.must_hold(eq)
                    if not ok:
                        bad = "real decoder reads a conforming encoding as a different value"
            acc.inc("checked:" + c.notes.get("form", "only"))
            if len(o.samples) < 5:
                o.samples.append({"form": c.notes.get("form", "only"), "wire": str(c.notes["wire"])[:90]})
            if bad and len(o.violations) < 3:
                m = model or c.check_model()
                if m is None:
                    return
                wire = c.notes["wire"].concretize(m)
                expr = c04.expr_of(v, m)
                run.replay(o, "decode:%s:%s" % (c04.shape_sig(v), c.notes.get("form", "only")), "%s: %s" % (bad, expr[:120]),
                           c04.PRELUDE + '''
wire = %r
v = %s
try:
    w = brine.load(wire)
    bad = not same(v, w)
    print("decoded", ascii(w)[:100], "expected", ascii(v)[:100])
except Exception as e:
    print("rejected:", type(e).__name__, e); bad = True
if bad:
    print("REPRODUCED"); sys.exit(1)
''' % (wire, expr))

        n, incomplete = par_explore(run, o, harness, on_path, acc, split_depth=3)
        o.paths = dict(acc.counts, total=n)
        if incomplete:
            o.verdict = "inconclusive"
            o.detail = incomplete
        for f in ("short", "l1", "l4"):
            if not acc.counts.get("checked:" + f):
                raise core.HarnessError("reachability twin: form %s never decoded" % f)
    return ob


def ob_consts(run):
    """published numeric values and request layouts (decided by direct comparison)"""
    def ob(o):
        from rpyc.core import consts, brine
        from rpyc.core.protocol import Connection
        from rpyc.core.channel import Channel
        from rpyc.core.stream import SocketStream
        diffs = []
        for k, v in W.MSG.items():
            if getattr(consts, "MSG_" + k, None) != v:
                diffs.append("MSG_%s=%r (published %r)" % (k, getattr(consts, "MSG_" + k, None), v))
        for k, v in W.LABEL.items():
            if getattr(consts, "LABEL_" + k, None) != v:
                diffs.append("LABEL_%s=%r (published %r)" % (k, getattr(consts, "LABEL_" + k, None), v))
        for k, v in W.HANDLE.items():
            if getattr(consts, "HANDLE_" + k, None) != v:
                diffs.append("HANDLE_%s=%r (published %r)" % (k, getattr(consts, "HANDLE_" + k, None), v))
        if consts.EXC_STOP_ITERATION != W.EXC_STOP_ITERATION:
            diffs.append("EXC_STOP_ITERATION")
        handlers = Connection._request_handlers()
        layout = {"PING": ["data"], "CLOSE": [], "GETROOT": [], "GETATTR": ["obj", "name"], "DELATTR": ["obj", "name"],
                  "SETATTR": ["obj", "name", "value"], "CALL": ["obj", "args", "kwargs"], "CALLATTR": ["obj", "name", "args", "kwargs"],
                  "REPR": ["obj"], "STR": ["obj"], "CMP": ["obj", "other", "op"], "HASH": ["obj"], "DIR": ["obj"],
                  "PICKLE": ["obj", "proto"], "DEL": ["obj", "count"], "INSPECT": ["id_pack"], "BUFFITER": ["obj", "count"],
                  "OLDSLICING": ["obj", "attempt", "fallback", "start", "stop", "args"], "CTXEXIT": ["obj", "exc"],
                  "INSTANCECHECK": ["obj", "other_id_pack"]}
        for k, v in W.HANDLE.items():
            h = handlers.get(v)
            if h is None or h.__name__ != "_handle_" + k.lower():
                diffs.append("handler %d is %s (published _handle_%s)" % (v, getattr(h, "__name__", None), k.lower()))
                continue
            params = list(inspect.signature(h).parameters)[1:]
            if params != layout[k]:
                diffs.append("argument layout of %s: %s (published %s)" % (k, params, layout[k]))
        if len(handlers) != len(W.HANDLE):
            diffs.append("handler table has %d entries (published %d)" % (len(handlers), len(W.HANDLE)))
        if Channel.COMPRESSION_THRESHOLD != W.COMPRESSION_THRESHOLD or Channel.FLUSHER != W.FLUSHER or \
                Channel.FRAME_HEADER.format not in ("!LB", b"!LB") or SocketStream.MAX_IO_CHUNK != W.MAX_IO_CHUNK:
            diffs.append("frame constants")
        tags = {"TAG_NONE": W.T_NONE, "TAG_EMPTY_STR": W.T_EMPTY_BYTES, "TAG_EMPTY_TUPLE": W.T_EMPTY_TUPLE, "TAG_TRUE": W.T_TRUE,
                "TAG_FALSE": W.T_FALSE, "TAG_NOT_IMPLEMENTED": W.T_NOTIMPL, "TAG_ELLIPSIS": W.T_ELLIPSIS, "TAG_UNICODE": W.T_UNICODE,
                "TAG_STR1": W.T_BYTES_1, "TAG_STR4": W.T_BYTES_4, "TAG_STR_L1": W.T_BYTES_L1, "TAG_STR_L4": W.T_BYTES_L4,
                "TAG_TUP1": W.T_TUP_1, "TAG_TUP4": W.T_TUP_4, "TAG_TUP_L1": W.T_TUP_L1, "TAG_TUP_L4": W.T_TUP_L4,
                "TAG_INT_L1": W.T_INT_L1, "TAG_INT_L4": W.T_INT_L4, "TAG_FLOAT": W.T_FLOAT, "TAG_SLICE": W.T_SLICE,
                "TAG_FSET": W.T_FSET, "TAG_COMPLEX": W.T_COMPLEX}
        for k, v in tags.items():
            if getattr(brine, k, None) != bytes([v]):
                diffs.append("%s=%r (published 0x%02x)" % (k, getattr(brine, k, None), v))
        o.samples.append({"constants_compared": len(W.MSG) + len(W.LABEL) + 2 * len(W.HANDLE) + len(tags) + 5, "differences": diffs})
        if diffs:
            run.replay(o, "consts:" + diffs[0].split()[0].split("=")[0], "published constants differ: %s" % diffs[:4],
                       '''import sys
sys.path.insert(0, __import__("os").environ.get("VERIF_REPO", "/repo")); sys.path.insert(0, "/verif")
from rpyc.core import consts
from specs import ref_wire as W
bad = [k for k, v in list(W.MSG.items()) if getattr(consts, "MSG_" + k, None) != v]
bad += [k for k, v in W.LABEL.items() if getattr(consts, "LABEL_" + k, None) != v]
bad += [k for k, v in W.HANDLE.items() if getattr(consts, "HANDLE_" + k, None) != v]
print("reported:", %r, "recomputed:", bad)
print("REPRODUCED"); sys.exit(1)
''' % (diffs[:4],))
    return ob


def main():
    run = Run("C19", level="other")
    interp = Interp()
    thorough = run.tier == "thorough"
    run.assumptions = ["the oracle (specs/ref_wire.py, specs/plain_sym.ref_encode) is the published 5.x format typed in independently of rpyc",
                       "stub contracts as in C04/C05 (struct, utf-8, str(int), zlib)"]
    run.outside = ["request/response conversation with a reference peer is covered per handler under C01/C02/C07 harnesses"]
    run.obligation("O1_encode_shortest", "real dump(v) == published shortest-form encoding, all length classes",
                   ob_encode_refsplit(run, interp, 1, 3 if thorough else 2))
    if thorough:
        # nesting 2 with arity 2 is several million paths; the thorough tier widens (arity 3) and deepens (nesting 2, arity 1) separately
        run.obligation("O1_encode_shortest_deep", "the same for nesting depth 2 (containers of one element)", ob_encode_refsplit(run, interp, 2, 1))
    run.obligation("O2_decode_conforming", "real load() accepts every conforming encoding (incl. non-shortest length forms) and reads the same value",
                   ob_decode_conforming(run, interp))
    run.obligation("O3_frame", "Channel.send bytes == published frame; receiver reads the same packets",
                   c05.ob_framing(run, interp, 2))
    run.obligation("O4_constants", "message kinds, labels, handler numbers, handler table and argument layouts, tags, frame constants", ob_consts(run))
    run.note_encoded(interp)
    sys.exit(run.finish())


if __name__ == "__main__":
    main()
