"""World model for the server-level properties (C16, C17).

The code under test is rpyc/utils/server.py (interpreted symbolically by engine S
when a check runs, executed natively by CPython when a counterexample is replayed);
rpyc.core underneath it runs natively in both cases -- its behaviour on arbitrary
bytes / faults is the subject of C04, C05, C07, C08, C11.

Environment = stubs (every one is part of the claim):
* sockets: `Endpoint` is the kernel object of one accepted connection, `FakeSock` a
  descriptor on it (fork duplicates descriptors); the listener likewise.
* threads: `spawn` creates a coroutine (a real thread that only runs while it holds
  the baton); a coroutine runs until it would block (recv / poll / accept / queue
  get / join) and is resumed when the wait condition holds.  After every external
  event all runnable coroutines are run to quiescence in creation order ("settled"
  schedules: one representative interleaving per history).
* processes: `os.fork` returns a pid in the parent and starts the child as a
  coroutine on a copy of the server object with duplicated descriptors;
  `os._exit` ends that coroutine and closes its descriptors.
* time: virtual; `sleep` returns at once.
"""
import copy
import errno
import os as real_os
import queue as real_queue
import socket as real_socket
import threading

try:
    from engine import core
except ImportError:                      # replays run under the repository's own interpreter, which has no z3
    class core(object):
        class HarnessError(Exception):
            pass

        class BoundExceeded(Exception):
            pass


class Killed(BaseException):
    pass


CONTROL = tuple(getattr(core, n) for n in ("PathAbort", "Pruned", "BoundExceeded", "Unsupported", "HarnessError") if hasattr(core, n))


class CoExit(BaseException):
    """os._exit() in a forked child"""


class Co(object):
    def __init__(self, fn, args, name, pid):
        self.fn, self.args, self.name, self.pid = fn, args, name, pid
        self.state = "new"
        self.resume = threading.Semaphore(0)
        self.kill = False
        self.result = None
        self.error = None
        self.why = None
        self.cond = None
        self.exc_stack = []
        self.handles = []          # descriptors owned by this process (forked children only)


class Sched(object):
    """coroutines on real threads; exactly one of {main, one coroutine} runs at any time"""

    def __init__(self, world):
        self.world = world
        self.cos = []
        self.main = threading.Semaphore(0)
        self.current = None
        self.steps = 0

    def spawn(self, fn, args, name, pid=0):
        co = Co(fn, tuple(args), name, pid)
        self.cos.append(co)
        return co

    def _run(self, co):
        try:
            co.result = ("return", self.world.invoke(co.fn, co.args))
        except Killed:
            co.result = ("killed",)
        except CoExit:
            co.result = ("exit",)
            for h in list(co.handles):
                h.close()
        except CONTROL as e:                 # explorer control flow (path abort, pruned shard, bound, unsupported, ...)
            co.error = e
        except BaseException as e:           # an exception of the code under test -- KeyboardInterrupt and SystemExit
            co.result = ("raise", e)         # included -- ends the thread, as in CPython
        co.state = "done"
        self.main.release()

    def step(self, co):
        interp = self.world.interp
        saved = None
        if interp is not None:
            saved, interp.exc_stack = interp.exc_stack, co.exc_stack
        self.current = co
        self.steps += 1
        if co.state == "new":
            co.state = "running"
            t = threading.Thread(target=self._run, args=(co,))
            t.daemon = True
            co.thread = t
            t.start()
        else:
            co.state = "running"
            co.resume.release()
        self.main.acquire()
        self.current = None
        if interp is not None:
            interp.exc_stack = saved
        if co.error is not None:
            e, co.error = co.error, None
            raise e

    def block(self, why, cond, always_yield=False):
        """called by the running coroutine: park until cond() holds"""
        co = self.current
        if co is None:
            raise core.HarnessError("blocking call (%s) outside a coroutine" % why)
        if cond() and not always_yield:
            return
        co.state, co.why, co.cond = "blocked", why, cond
        self.main.release()
        co.resume.acquire()
        self.current = co
        if co.kill:
            raise Killed()

    def runnable(self):
        out = []
        for co in self.cos:
            if co.state == "new" or (co.state == "blocked" and co.cond()):
                out.append(co)
        return out

    def quiesce(self, max_steps=400):
        n = 0
        last = -1
        counts = {}
        for co in self.cos:
            co.spinning = False
        while True:
            r = [c for c in self.runnable() if not getattr(c, "spinning", False)]
            if not r:
                return
            n += 1
            if n > max_steps:
                raise core.BoundExceeded("no quiescence after %d coroutine steps (%s)" % (max_steps, [(c.name, c.why) for c in r]))
            # round robin in creation order (a thread that merely ticks must not starve the others)
            nxt = [c for c in r if self.cos.index(c) > last]
            co = nxt[0] if nxt else r[0]
            last = self.cos.index(co)
            counts[id(co)] = counts.get(id(co), 0) + 1
            if counts[id(co)] > 80 and co.why == "poll-round":
                # the thread has gone round its poll loop 80 times without anything else changing: it spins (busy loop);
                # leave it aside until the next external event
                co.spinning = True
                self.world.spinners.append(co.name)
                continue
            self.step(co)

    def kill_all(self):
        for co in self.cos:
            if co.state == "blocked":
                co.kill = True
                co.state = "running"
                self.current = co
                co.resume.release()
                self.main.acquire()
        self.current = None


# ---------------------------------------------------------------------------------- sockets
class Endpoint(object):
    """server side of one accepted connection (kernel object)"""

    def __init__(self, world, name):
        self.world = world
        self.name = name
        self.refs = 0
        self.peer = "open"          # open / fin / rst
        self.shut = False           # server called shutdown()
        self.inbox = []             # bytes from the client not yet read
        self.sent = []              # bytes the server wrote
        self.port = 40000 + len(world.endpoints)
        self.notconn = False        # getpeername fails with ENOTCONN (peer reset before the server looked)
        self.reactor = None         # a client that reacts to what the server writes: reactor(endpoint, data)

    def readable(self):
        return bool(self.inbox) or self.shut or self.peer != "open" or self.refs == 0

    def client_sees_eof(self):
        return self.shut or self.refs == 0


class FakeSock(object):
    """a descriptor of an accepted connection"""

    def __init__(self, world, ep):
        self.world = world
        self.ep = ep
        ep.refs += 1
        self.closed = False
        self.owner = world.sched.current.pid if world.sched.current is not None else 0
        self.fd = world.new_fd(self)
        self.timeout = None
        world.handles.append(self)

    def dup(self, pid):
        h = FakeSock.__new__(FakeSock)
        h.world, h.ep, h.closed, h.timeout, h.owner = self.world, self.ep, False, self.timeout, pid
        h.fd = self.fd
        self.ep.refs += 1
        self.world.handles.append(h)
        if pid != self.owner:
            self.world.fds[(pid, h.fd)] = h           # a forked child has its own descriptor table
        return h

    def _check(self):
        if self.closed:
            raise OSError(errno.EBADF, "Bad file descriptor")

    def fileno(self):
        return -1 if self.closed else self.fd

    def setblocking(self, flag):
        self._check()
        self.timeout = None if flag else 0.0

    def settimeout(self, t):
        self._check()
        self.timeout = t

    def setsockopt(self, *a):
        self._check()

    def getpeername(self):
        self._check()
        if self.ep.notconn:
            raise OSError(errno.ENOTCONN, "Transport endpoint is not connected")
        return ("client", self.ep.port)

    def getsockname(self):
        self._check()
        return ("127.0.0.1", 18861)

    def recv(self, n):
        self._check()
        ep = self.ep
        if not ep.inbox and not ep.shut and ep.peer == "open":
            if self.timeout is not None:
                raise real_socket.timeout("timed out")
            self.world.sched.block("recv %s" % ep.name, lambda: ep.readable() or self.closed)
            self._check()
        if ep.inbox:
            chunk = ep.inbox[0]
            if len(chunk) > n:
                ep.inbox[0] = chunk[n:]
                return chunk[:n]
            ep.inbox.pop(0)
            return chunk
        if ep.peer == "rst":
            raise ConnectionResetError(errno.ECONNRESET, "Connection reset by peer")
        return b""

    def send(self, data):
        self._check()
        ep = self.ep
        if ep.shut or ep.peer != "open":
            raise BrokenPipeError(errno.EPIPE, "Broken pipe")
        ep.sent.append(bytes(data))
        if ep.reactor is not None:
            ep.reactor(ep, bytes(data))
        return len(data)

    sendall = send

    def shutdown(self, how):
        self._check()
        if self.ep.peer == "rst" or self.ep.notconn:
            raise OSError(errno.ENOTCONN, "Transport endpoint is not connected")
        self.ep.shut = True

    def close(self):
        if not self.closed:
            self.closed = True
            self.ep.refs -= 1

    def detach(self):
        """the descriptor leaves this object (which becomes a closed shell) without being closed"""
        self._check()
        self.closed = True
        self.ep.refs -= 1
        return self.fd

    def __repr__(self):
        return "<FakeSock %s fd=%s%s>" % (self.ep.name, self.fd, " closed" if self.closed else "")


class ListenerEP(object):
    def __init__(self):
        self.fail_next = None       # errno of a failure the next accept() call reports
        self.pending = []
        self.refs = 0
        self.shut = False
        self.listening = False
        self.accepted = 0


class FakeListener(object):
    def __init__(self, world, ep=None, family=None):
        self.world = world
        self.ep = ep or world.listener_ep
        self.ep.refs += 1
        self.closed = False
        self.timeout = None
        self.family = family
        self.fd = 3
        world.handles.append(self)

    def dup(self, pid):
        h = FakeListener(self.world, self.ep, self.family)
        h.timeout = self.timeout
        return h

    def _check(self):
        if self.closed:
            raise OSError(errno.EBADF, "Bad file descriptor")

    def setsockopt(self, *a):
        self._check()

    def bind(self, addr):
        self._check()
        self.addr = addr

    def settimeout(self, t):
        self._check()
        self.timeout = t

    def getsockname(self):
        self._check()
        return ("127.0.0.1", 18861)

    def listen(self, backlog):
        self._check()
        self.ep.listening = True

    def fileno(self):
        return -1 if self.closed else self.fd

    def accept(self):
        self._check()
        ep = self.ep
        if not ep.pending and not ep.shut and ep.fail_next is None:
            self.world.sched.block("accept", lambda: bool(ep.pending) or ep.shut or self.closed or ep.fail_next is not None)
            self._check()
        if ep.shut:
            raise OSError(errno.EINVAL, "Invalid argument")
        if ep.fail_next is not None:
            e, ep.fail_next = ep.fail_next, None
            raise OSError(e, "accept failed")
        c = ep.pending.pop(0)
        ep.accepted += 1
        sock = FakeSock(self.world, c)
        self.world.last_accepted = sock
        return sock, ("client", c.port)

    def shutdown(self, how):
        self._check()
        self.ep.shut = True

    def close(self):
        if not self.closed:
            self.closed = True
            self.ep.refs -= 1


class FakeSocketModule(object):
    """what rpyc/utils/server.py uses of the socket module"""
    AF_UNIX, AF_INET, AF_INET6 = real_socket.AF_UNIX, real_socket.AF_INET, real_socket.AF_INET6
    SOCK_STREAM, IPPROTO_TCP, AI_PASSIVE = real_socket.SOCK_STREAM, real_socket.IPPROTO_TCP, real_socket.AI_PASSIVE
    SOL_SOCKET, SO_REUSEADDR, SOMAXCONN, SHUT_RDWR = real_socket.SOL_SOCKET, real_socket.SO_REUSEADDR, real_socket.SOMAXCONN, real_socket.SHUT_RDWR
    error = real_socket.error
    timeout = real_socket.timeout

    def __init__(self, world):
        self.world = world

    def socket(self, family=None, type=None, *a):
        return FakeListener(self.world, family=family)

    def getaddrinfo(self, host, port, **kw):
        return [(kw.get("family"), kw.get("type"), kw.get("proto"), "", (host or "0.0.0.0", port))]


class FakePoll(object):
    """rpyc.lib.compat.poll over the fake descriptors"""
    WORLD = [None]

    def __init__(self):
        self.reg = {}
        cur = self.WORLD[0].sched.current if self.WORLD[0] is not None else None
        self.pid = cur.pid if cur is not None else 0        # descriptor numbers are per process

    def register(self, fd, mode):
        self.reg[fd] = mode
    modify = register

    def unregister(self, fd):
        del self.reg[fd]

    def _ready(self):
        w = self.WORLD[0]
        out = []
        for fd in list(self.reg):
            h = w.fds.get((self.pid, fd))
            if h is None or h.closed:
                out.append((fd, "n"))
                continue
            ep = h.ep
            if ep.peer == "rst":
                out.append((fd, "reh"))
            elif ep.shut:
                out.append((fd, "rh"))
            elif ep.inbox or ep.peer == "fin":
                out.append((fd, "r"))
        return out

    def poll(self, timeout=None):
        w = self.WORLD[0]
        ev = self._ready()
        if ev and timeout is not None and timeout > 0 and w.sched.current is not None:
            # a poller loop (finite timeout): every round is a scheduling point, so that a thread that is handed the same
            # events over and over is seen to spin instead of hanging the exploration
            w.sched.block("poll-round", lambda: True, always_yield=True)
            return self._ready()
        if ev or (timeout is not None and timeout <= 0):
            return ev
        if timeout is None:
            w.sched.block("poll", lambda: bool(self._ready()))
            return self._ready()
        # finite timeout: returns when something is ready, or (virtual time) when the server is being closed
        w.sched.block("poll-tick", lambda: bool(self._ready()) or w.closing, always_yield=w.closing)
        return self._ready()

    def poll_yielding(self, timeout):
        pass


class FakeThread(object):
    def __init__(self, world, co):
        self.world, self.co = world, co

    def setName(self, n):
        self.co.name = n

    def join(self, timeout=None):
        co = self.co
        self.world.sched.block("join %s" % co.name, lambda: co.state == "done")

    def is_alive(self):
        return self.co.state != "done"
    isAlive = is_alive


class FakeQueue(object):
    def __init__(self, *a):
        self.items = []

    def put(self, x, *a):
        self.items.append(x)

    def get(self, block=True, timeout=None):
        if not self.items:
            if not block:
                raise real_queue.Empty()
            FakePoll.WORLD[0].sched.block("queue-get", lambda: bool(self.items))
        return self.items.pop(0)

    def qsize(self):
        return len(self.items)


class FakeQueueModule(object):
    Queue = FakeQueue
    Empty = real_queue.Empty


class FakeTime(object):
    def __init__(self):
        self.now = 1000.0

    def time(self):
        return self.now

    def sleep(self, dt):
        self.now += dt


class FakeSignal(object):
    SIGCHLD = 17

    def __init__(self):
        self.handlers = []

    def signal(self, sig, handler):
        self.handlers.append((sig, handler))
        return None

    def siginterrupt(self, *a):
        pass


class FakeOS(object):
    WNOHANG = 1

    def __init__(self, world):
        self.world = world

    def fork(self):
        w = self.world
        cur = w.sched.current
        if cur is not None and cur.pid != 0 and getattr(cur, "booting", False):
            cur.booting = False
            return 0
        # parent: the child is a new process with duplicates of every descriptor of the parent
        parent_server, parent_sock = w.server, w.last_accepted
        pid = 100 + len([c for c in w.sched.cos if c.pid != 0])
        child_server = copy.copy(parent_server)
        child_server.listener = parent_server.listener.dup(pid)
        child_sock = parent_sock.dup(pid)
        mapping = {id(parent_sock): child_sock}
        child_server.clients = set()
        for s in parent_server.clients:
            child_server.clients.add(mapping[id(s)] if id(s) in mapping else s.dup(pid))
        co = w.sched.spawn(type(parent_server)._accept_method, (child_server, child_sock), "child-%d" % pid, pid=pid)
        co.booting = True
        co.handles = [child_server.listener] + list(child_server.clients)
        if child_sock not in co.handles:
            co.handles.append(child_sock)
        w.children.append((co, child_server))
        return pid

    def _exit(self, code):
        raise CoExit()

    def waitpid(self, pid, flags):
        return (0, 0)


class Log(object):
    def __init__(self):
        self.lines = []

    def debug(self, *a, **k):
        self.lines.append(("log", a[0] if a else ""))

    info = warn = warning = error = debug

    def exception(self, *a, **k):
        self.lines.append(("exception", a[0] if a else ""))


class World(object):
    def __init__(self, interp=None):
        self.interp = interp
        if interp is not None and Killed not in interp.control_exceptions:
            # a thread that is killed at the end of a path, or a child process calling os._exit, runs no finally blocks
            interp.control_exceptions = interp.control_exceptions + (Killed, CoExit)
        self.sched = Sched(self)
        self.listener_ep = ListenerEP()
        self.endpoints = []
        self.handles = []
        self.fds = {}
        self.next_fd = 10
        self.closing = False
        self.finished = False
        self.spinners = []          # threads seen to busy-loop
        self.tick = 0               # number of external events so far
        self.slow_hooks = False     # disconnect hooks take until the next external event
        self.children = []
        self.server = None
        self.last_accepted = None
        self.time = FakeTime()
        self.signal = FakeSignal()

    def new_fd(self, h):
        # like a kernel: the lowest descriptor number that no open descriptor of the server process uses
        used = set(x.fd for x in self.handles if isinstance(x, FakeSock) and not x.closed and x.owner == 0)
        fd = 10
        while fd in used:
            fd += 1
        self.fds[(h.owner, fd)] = h
        return fd

    def invoke(self, fn, args):
        if self.interp is not None:
            return self.interp.call(fn, args)
        return fn(*args)

    def spawn(self, fn, *args, **kwargs):
        co = self.sched.spawn(fn, args, getattr(fn, "__name__", "thread"))
        return FakeThread(self, co)


PATCHED = ("socket", "spawn", "time", "Queue", "os", "signal", "poll")


def install(world):
    """replace the environment of rpyc/utils/server.py (and the poll of rpyc/core/stream.py) by the model"""
    import rpyc.utils.server as S
    import rpyc.core.stream as ST
    FakePoll.WORLD[0] = world
    S.socket = FakeSocketModule(world)
    S.spawn = world.spawn
    S.time = world.time
    S.Queue = FakeQueueModule
    S.os = FakeOS(world)
    S.signal = world.signal
    S.poll = FakePoll
    ST.poll = FakePoll


# ---------------------------------------------------------------------------------- scenario
KINDS = ["threaded", "pool", "oneshot", "forking"]


def server_class(kind):
    import rpyc.utils.server as S
    return {"threaded": S.ThreadedServer, "pool": S.ThreadPoolServer, "oneshot": S.OneShotServer, "forking": S.ForkingServer}[kind]


def token_authenticator(sock):
    """reads a 4-byte token from the socket (blocks on a silent client, like an SSL handshake does)"""
    from rpyc.utils.authenticators import AuthenticationError
    data = sock.recv(4)
    if data != b"GOOD":
        raise AuthenticationError("bad token")
    return sock, "user"


def wrapping_authenticator(sock):
    """like token_authenticator, but hands back a NEW socket object that has taken the connection over -- what ssl
    wrapping does (SSLSocket is built from sock.detach()); the socket the server accepted is left as a closed shell"""
    from rpyc.utils.authenticators import AuthenticationError
    data = sock.recv(4)
    if data != b"GOOD":
        raise AuthenticationError("bad token")
    new = sock.dup(sock.owner)
    sock.detach()
    sock.world.fds[(new.owner, new.fd)] = new          # the descriptor number now belongs to the new object
    return new, "user"


AUTHENTICATORS = {False: None, None: None, True: token_authenticator, "token": token_authenticator, "wrap": wrapping_authenticator}
AUTH_KINDS = [False, "token", "wrap"]


def _in_finalizer():
    import sys
    f = sys._getframe(1)
    while f is not None:
        if f.f_code.co_name == "__del__":
            return True
        f = f.f_back
    return False


def make_service(world=None):
    import rpyc

    class Svc(rpyc.Service):
        instances = []
        connected = []
        disconnected = []

        def __init__(self):
            Svc.instances.append(self)

        def on_connect(self, conn):
            Svc.connected.append(self)

        def on_disconnect(self, conn):
            Svc.disconnected.append(self)
            w = world
            if w is FakePoll.WORLD[0] and w.slow_hooks and not w.finished and w.sched.current is not None \
                    and w.sched.current.pid == 0 and not w.closing and not _in_finalizer():
                # application code: the hook takes its time (here: until the next external event)
                t0 = w.tick
                w.sched.block("disconnect-hook", lambda: w.tick > t0 or w.closing)

        def exposed_whoami(self):
            return id(self)
    return Svc


class RecStream(object):
    MAX_IO_CHUNK = 64000

    def __init__(self):
        self.data = b""

    def write(self, d):
        self.data += bytes(d)


def frame(obj):
    """bytes of one well-formed frame carrying obj (real Channel + real brine)"""
    from rpyc.core.channel import Channel
    from rpyc.core import brine
    st = RecStream()
    Channel(st).send(brine.dump(obj))
    return st.data


def parse_frames(data):
    """decode the server's output with the real Channel/brine; returns (messages, leftover_ok)"""
    from rpyc.core.channel import Channel
    from rpyc.core import brine

    class In(object):
        def __init__(self, d):
            self.d = d

        def read(self, n):
            if len(self.d) < n:
                raise EOFError()
            out, self.d = self.d[:n], self.d[n:]
            return out

        def poll(self, t):
            return bool(self.d)
    ch = Channel(In(data))
    msgs = []
    try:
        while ch.stream.d:
            msgs.append(brine.load(ch.recv()))
    except EOFError:
        return msgs, False
    return msgs, True


GARBAGE = {
    "B-huge-length": [b"\xff\xff\xff\xf0\x00" + b"junk" * 4],                    # absurd length field, then the client goes away
    "B-bad-zlib": [b"\x00\x00\x00\x04\x01" + b"\xde\xad\xbe\xef" + b"\x00" * 8],   # compressed flag set, not zlib data
    "B-bad-brine": [b"\x00\x00\x00\x03\x00" + b"\xff\xfe\xfd" + b"\x00" * 8],      # well-framed, undecodable payload
    "B-truncated": [b"\x00\x00"],                                                # half a header
}

class LyingInspector(object):
    """a misbehaving client that speaks the protocol: it sends a request whose argument is a reference to an object of an
    unknown class; the server, unboxing it, asks about that class (INSPECT) -- and is answered with an *exception reply*
    naming an exception class of the client's choosing (KeyboardInterrupt, SystemExit, ...)"""

    def __init__(self, exc_name):
        self.exc_name = exc_name
        self.buf = b""

    def first_request(self):
        from rpyc.core import consts
        return frame((consts.MSG_REQUEST, 1, (consts.HANDLE_REPR, (consts.LABEL_TUPLE, ((consts.LABEL_REMOTE_REF, ("nowhere.Unknown", 4242, 4343)),)))))

    def __call__(self, ep, data):
        from rpyc.core import consts
        self.buf += data
        msgs, clean = parse_frames(self.buf)
        if not clean:
            return
        self.buf = b""
        for m in msgs:
            if type(m) is tuple and len(m) == 3 and m[0] == consts.MSG_REQUEST and m[2][0] == consts.HANDLE_INSPECT:
                ep.inbox.append(frame((consts.MSG_EXCEPTION, m[1], (("builtins", self.exc_name), ("stop",), (), "remote traceback"))))


LYING = {"B-lying-KeyboardInterrupt": "KeyboardInterrupt", "B-lying-SystemExit": "SystemExit", "B-lying-GeneratorExit": "GeneratorExit"}

EVENTS = ["G", "C", "Lf", "Lr", "B-huge-length", "B-bad-zlib", "B-bad-brine", "B-truncated", "B-reset-early", "B-silent", "B-bad-token", "X", "XX"]


class Scenario(object):
    """one history against one server configuration"""

    def __init__(self, kind, with_auth, interp=None, slow_hooks=False):
        from rpyc.core import consts
        self.kind, self.with_auth = kind, with_auth
        self.world = World(interp)
        self.world.slow_hooks = slow_hooks
        install(self.world)
        self.Svc = make_service(self.world)
        self.log = Log()
        cls = server_class(kind)
        kw = dict(port=0, hostname="127.0.0.1", logger=self.log, auto_register=False,
                  authenticator=AUTHENTICATORS[with_auth])
        if kind == "pool":
            kw["nbThreads"] = 2
        self.server = self._construct(cls, kw)
        self.world.server = self.server
        self.clients = []          # [dict(ep=..., kind=..., calls=n, left=bool)]
        self.closed_by_harness = 0
        self.errors = []
        self.consts = consts
        self.acceptor = self.world.sched.spawn(self._start, (), "acceptor")
        self.world.sched.quiesce()

    def _construct(self, cls, kw):
        w = self.world
        if w.interp is not None:
            return w.interp.call(cls, (self.Svc,), kw)
        return cls(self.Svc, **kw)

    def _start(self):
        # the acceptor thread: Server.start() (fork needs the (server, socket) of the call in flight)
        srv = self.server
        return self.world.invoke(type(srv).start, (srv,))

    # -- external events ---------------------------------------------------------------
    def connect(self, kind):
        w = self.world
        ep = Endpoint(w, "%s#%d" % (kind, len(self.clients)))
        w.endpoints.append(ep)
        c = dict(ep=ep, kind=kind, calls=0, left=False, refused=False)
        if w.listener_ep.refs == 0 or w.listener_ep.shut or not w.listener_ep.listening:
            c["refused"] = True                     # connection refused: nobody listens any more
            self.clients.append(c)
            return c
        if kind == "B-reset-early":
            ep.peer = "rst"
            ep.notconn = True
            c["left"] = "rst"
        elif kind == "B-bad-token":
            ep.inbox.append(b"EVIL")
        elif kind == "B-silent":
            pass
        else:
            if self.with_auth:
                ep.inbox.append(b"GOOD")
            if kind in GARBAGE:
                ep.inbox.extend(GARBAGE[kind])
            if kind in LYING:
                liar = LyingInspector(LYING[kind])
                ep.reactor = liar
                ep.inbox.append(liar.first_request())
        w.listener_ep.pending.append(ep)
        self.clients.append(c)
        return c

    def call(self, c):
        """a well-behaved client asks for the root object"""
        consts = self.consts
        c["calls"] += 1
        c["ep"].inbox.append(frame((consts.MSG_REQUEST, c["calls"], (consts.HANDLE_GETROOT, (consts.LABEL_TUPLE, ())))))

    def leave(self, c, how):
        c["left"] = how
        c["ep"].peer = how

    def accept_fails(self, err):
        """the next accept() call of the server fails with errno err (a client aborted its pending connection, or
        the clients have used up the descriptors / buffers of the process or the system)"""
        self.world.listener_ep.fail_next = err

    def close_server(self):
        self.world.closing = True
        self.closed_by_harness += 1
        srv = self.server
        co = self.world.sched.spawn(type(srv).close, (srv,), "closer-%d" % self.closed_by_harness)
        return co

    def applicable(self, alphabet):
        """events of the alphabet that can happen in the current state"""
        if self.closed_by_harness:
            return [e for e in alphabet if e in ("X", "G")]
        live_good = [c for c in self.clients if c["kind"] == "G" and not c["left"] and not c["refused"]]
        live_any = [c for c in self.clients if not c["left"] and not c["refused"]]
        out = []
        for e in alphabet:
            if e == "C" and not live_good:
                continue
            if e in ("Lf", "Lr") and not live_any:
                continue
            if e == "B-bad-token" and not self.with_auth:
                continue
            out.append(e)
        return out

    def apply(self, ev):
        self.world.tick += 1
        live_good = [c for c in self.clients if c["kind"] == "G" and not c["left"] and not c["refused"]]
        live_any = [c for c in self.clients if not c["left"] and not c["refused"]]
        closers = []
        if ev == "G" or ev.startswith("B-"):
            c = self.connect(ev)
            self.settle()
            if ev in GARBAGE and not c["refused"]:
                self.leave(c, "fin")               # ... then the misbehaving client goes away
                c["left"] = "fin"
        elif ev == "C":
            if live_good:
                self.call(live_good[0])
        elif ev in ("Lf", "Lr"):
            if live_any:
                self.leave(live_any[0], "fin" if ev == "Lf" else "rst")
        elif ev == "X":
            closers.append(self.close_server())
        elif ev == "XX":
            closers.append(self.close_server())
            self.settle()
            closers.append(self.close_server())
        self.settle()
        for co in closers:
            if co.state != "done":
                self.errors.append("close() did not return (blocked at: %s)" % co.why)
            elif co.result[0] == "raise":
                self.errors.append("close() raised %r" % (co.result[1],))

    def settle(self):
        self.world.sched.quiesce()

    def finish(self):
        self.world.finished = True
        self.world.sched.kill_all()

    # -- observations ------------------------------------------------------------------
    def replies(self, c):
        return parse_frames(b"".join(c["ep"].sent))

    def server_threads(self):
        return [co for co in self.world.sched.cos if co.pid == 0 and not co.name.startswith("closer")]


# ---------------------------------------------------------------------------------- oracles
def accepted(sc, c):
    return not c["refused"] and c["ep"] not in sc.world.listener_ep.pending


def tables_mentioning(sc, c):
    """server-side tables that still mention client c"""
    out = []
    srv = sc.server
    ep = c["ep"]
    if any(getattr(s, "ep", None) is ep for s in srv.clients):
        out.append("clients")
    w = sc.world

    def owner_ep(fd, conn=None):
        # whose connection an entry under descriptor number fd is about (numbers are reused once closed)
        sock = None
        if conn is not None:
            try:
                sock = conn._channel.stream.sock
            except Exception:
                sock = None
        if getattr(sock, "ep", None) is not None:
            return sock.ep
        h = w.fds.get((0, fd))
        return getattr(h, "ep", None)
    f2c = getattr(srv, "fd_to_conn", None)
    if f2c is not None and any(owner_ep(fd, conn) is ep for fd, conn in f2c.items()):
        out.append("fd_to_conn")
    po = getattr(srv, "poll_object", None)
    if po is not None and any(owner_ep(fd, (f2c or {}).get(fd)) is ep for fd in po.reg):
        out.append("poll registrations")
    return out


def check_departed(sc):
    """C17, second sentence: at quiescence nothing is held for clients that have left"""
    bad = []
    for c in sc.clients:
        if not c["left"] or not accepted(sc, c):
            continue
        ep = c["ep"]
        # a descriptor that is still open is released by CPython as soon as nothing refers to it any more: what keeps it
        # alive is a server table (below) or a thread / process that is still serving the departed client
        for co in sc.world.sched.cos:
            if co.state != "done" and co.args and any(getattr(a, "ep", None) is ep for a in co.args):
                bad.append(("departed:still-served", "%s is still serving departed client %s (blocked at %s)" % (co.name, ep.name, co.why)))
        t = tables_mentioning(sc, c)
        if t:
            bad.append(("departed:table:%s" % t[0], "departed client %s is still in %s" % (ep.name, ", ".join(t))))
    return bad


def check_closed(sc):
    """C17, first sentence: after close() every client is terminated, hooks ran, nothing is left"""
    bad = []
    srv = sc.server
    for e in sc.errors:
        bad.append(("close:error", e))
    if not srv.listener.closed:
        bad.append(("close:listener", "the listener is still open after close()"))
    for c in sc.clients:
        if not accepted(sc, c) or c["left"]:
            continue
        ep = c["ep"]
        if not ep.client_sees_eof():
            bad.append(("close:client-left-connected", "client %s is still connected after close(): it never observes end-of-stream" % ep.name))
    Svc = sc.Svc
    missing = [s for s in Svc.connected if s not in Svc.disconnected]
    if missing:
        bad.append(("close:no-disconnect-hook", "%d connection(s) never had their disconnect hook run" % len(missing)))
    if len(Svc.disconnected) != len(set(map(id, Svc.disconnected))):
        bad.append(("close:disconnect-twice", "a disconnect hook ran twice"))
    if srv.clients:
        bad.append(("close:table:clients", "clients set not empty after close(): %r" % (srv.clients,)))
    if getattr(srv, "fd_to_conn", None):
        bad.append(("close:table:fd_to_conn", "fd_to_conn not empty after close()"))
    for co in sc.server_threads():
        if co.state != "done" and co.name not in ("_authenticate_and_serve_client",):
            bad.append(("close:thread-alive", "server thread %s still running after close() (blocked at %s)" % (co.name, co.why)))
    for co in sc.world.sched.cos:
        if co.state != "done" and (co.name == "_authenticate_and_serve_client" or co.pid != 0):
            bad.append(("close:serving-continues", "%s is still serving after close() (blocked at %s)" % (co.name, co.why)))
    return bad


def check_oneshot(sc):
    bad = []
    if sc.kind != "oneshot":
        return bad
    if sc.world.listener_ep.accepted > 1:
        bad.append(("oneshot:second-connection", "the one-shot server accepted %d connections" % sc.world.listener_ep.accepted))
    first = [c for c in sc.clients if accepted(sc, c)]
    if first and first[0]["left"] and (sc.server.active or not sc.server.listener.closed or sc.acceptor.state != "done"):
        bad.append(("oneshot:still-up", "the one-shot server is still up after its only client left"))
    return bad


def check_serving(sc, probe):
    """C16: the server is still accepting and serving; the probe client (and every earlier good client) was served correctly,
    each by its own service instance"""
    bad = []
    consts = sc.consts
    if sc.acceptor.state == "done":
        bad.append(("accept-loop-dead", "the accept loop has ended: %r" % (sc.acceptor.result,)))
    elif sc.acceptor.why != "accept":
        where = "authenticating" if (sc.with_auth and str(sc.acceptor.why).startswith("recv")) else "elsewhere"
        bad.append(("accept-loop-stuck:%s" % where, "the accept loop is blocked at %r instead of accepting" % (sc.acceptor.why,)))
    loop_ok = not bad
    for co in sc.server_threads():
        if co.name.startswith("Worker") or co.name == "PollingThread":
            if co.state == "done":
                bad.append(("pool-thread-dead", "%s has ended: %r" % (co.name, co.result)))
    roots = {}
    for c in sc.clients:
        if c["kind"] != "G" or c["refused"]:
            if c is probe and c["refused"]:
                bad.append(("refused", "a well-behaved client is refused: nobody listens any more"))
            continue
        msgs, clean = sc.replies(c)
        if c["left"] and not c is probe:
            continue
        if not accepted(sc, c) and not loop_ok:
            continue                      # never accepted: a consequence of the accept-loop problem reported above
        if len(msgs) != c["calls"] or not clean:
            bad.append(("not-served", "well-behaved client %s made %d call(s) and got %d repl(ies)" % (c["ep"].name, c["calls"], len(msgs))))
            continue
        for i, m in enumerate(msgs):
            ok = type(m) is tuple and len(m) == 3 and m[0] == consts.MSG_REPLY and m[1] == i + 1 and type(m[2]) is tuple and m[2][0] == consts.LABEL_REMOTE_REF
            if not ok:
                bad.append(("wrong-answer", "client %s got %r" % (c["ep"].name, m)))
                break
            inst = m[2][1][2]
            roots.setdefault(inst, set()).add(c["ep"].name)
            if inst not in [id(s) for s in sc.Svc.instances]:
                bad.append(("wrong-answer", "client %s got a root that is not a service instance of this server" % c["ep"].name))
    for inst, who in roots.items():
        if len(who) > 1:
            bad.append(("shared-instance", "clients %s are served by one and the same service instance" % sorted(who)))
    return bad


def judge(sc, prop):
    """final phase + oracles of a history that has been applied to scenario sc"""
    bad = []
    sc.world.tick += 1              # time passes: hooks that were taking their time finish
    sc.settle()
    if True:
        if prop == "C17":
            bad += check_oneshot(sc)
            if not sc.closed_by_harness:
                bad += check_departed(sc)
                sc.apply("X")
            bad += check_closed(sc)
        else:
            sc.world.tick += 1
            probe = sc.connect("G")
            sc.settle()
            sc.world.tick += 1
            sc.call(probe)
            sc.settle()
            sc.world.tick += 1
            sc.settle()
            bad += check_serving(sc, probe)
        summary = dict(threads=[(co.name, co.state, co.why if co.state == "blocked" else (co.result[0] if co.result else None)) for co in sc.world.sched.cos],
                       clients=[(c["ep"].name, "left:%s" % c["left"], "shut" if c["ep"].shut else "", "fds:%d" % c["ep"].refs) for c in sc.clients])
    return bad, summary


def run_history(kind, with_auth, hist, prop, interp=None, slow_hooks=False):
    """one history; returns (problems, scenario summary).  prop: 'C16' or 'C17'"""
    sc = Scenario(kind, with_auth, interp, slow_hooks)
    try:
        for ev in hist:
            sc.apply(ev)
        return judge(sc, prop)
    finally:
        sc.finish()
