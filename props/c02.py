"""C02 -- operating on a proxy is indistinguishable from operating on the target.

O1  forwarder completeness: every callable attribute of a target class gets a
    forwarding method on the synthesized proxy class, and the names the proxy keeps
    for itself are forwarded by BaseNetref's own special methods (data-model table).
O2  operation transparency: all sequences of <= k operations from a per-type pool on
    lists, dicts, sets, bytearrays, deques, generators, text files and a user class
    with operators/properties, through a real connection pair vs a local twin, under
    classic, public-attribute and (for what it permits) default configuration.
O3  buffered iteration: the real helpers.buffiter + _handle_buffiter with symbolic
    chunk / max_chunk and a remote iterator of symbolic length.
"""
import sys

import z3

from engine import core, values as V
from engine.core import ctx
from engine.harness import Run, Acc, par_explore
from engine.interp import Interp
from engine.values import Sym, SymInt

DATA_MODEL = ["__abs__", "__add__", "__and__", "__bool__", "__bytes__", "__call__", "__ceil__", "__complex__", "__contains__", "__delitem__",
              "__divmod__", "__enter__", "__exit__", "__float__", "__floor__", "__floordiv__", "__format__", "__getitem__", "__iadd__",
              "__iand__", "__ifloordiv__", "__ilshift__", "__imatmul__", "__imod__", "__imul__", "__index__", "__int__", "__invert__",
              "__ior__", "__ipow__", "__irshift__", "__isub__", "__iter__", "__itruediv__", "__ixor__", "__len__", "__length_hint__",
              "__lshift__", "__matmul__", "__mod__", "__mul__", "__neg__", "__next__", "__or__", "__pos__", "__pow__", "__radd__",
              "__rand__", "__rdivmod__", "__reversed__", "__rfloordiv__", "__rlshift__", "__rmatmul__", "__rmod__", "__rmul__", "__ror__",
              "__round__", "__rpow__", "__rrshift__", "__rshift__", "__rsub__", "__rtruediv__", "__rxor__", "__setitem__", "__sub__",
              "__truediv__", "__trunc__", "__xor__", "__missing__", "__aiter__", "__anext__", "__await__",
              "__eq__", "__ne__", "__lt__", "__le__", "__gt__", "__ge__", "__hash__", "__repr__", "__str__", "__dir__",
              "__getattr__", "__setattr__", "__delattr__", "__instancecheck__", "__reduce_ex__",
              "method", "other_name", "next", "send", "close"]
# names a proxy keeps for itself although they denote operations on the target: BaseNetref must forward them itself
SELF_FORWARDED = ["__eq__", "__ne__", "__lt__", "__le__", "__gt__", "__ge__", "__hash__", "__repr__", "__str__", "__dir__", "__getattr__",
                  "__setattr__", "__delattr__", "__exit__", "__instancecheck__", "__reduce_ex__", "__cmp__"]


def ob_forwarders(run):
    def ob(o):
        import inspect
        from rpyc.core import netref
        from rpyc.lib import get_methods
        o.symbolic = ["method name: exhaustive over %d data-model and ordinary names" % len(DATA_MODEL)]
        o.bounds = {"decided_by": "exhaustive enumeration (direct execution of get_methods / class_factory)"}
        missing = []
        for name in DATA_MODEL:
            ns = {name: (lambda self, *a, **k: None)}
            cls = type("Target", (object,), ns)
            methods = dict(get_methods(netref.LOCAL_ATTRS, cls()))
            proxy_cls = netref.class_factory(("mod.Target", 1, 2), methods.items())
            if name in netref.LOCAL_ATTRS:
                d = netref.BaseNetref.__dict__.get(name)
                if name in SELF_FORWARDED and name != "__cmp__":
                    src = inspect.getsource(d) if d is not None and inspect.isfunction(d) else ""
                    if "syncreq" not in src and "__getattr__" not in src:
                        missing.append("%s is kept local but BaseNetref does not forward it" % name)
            else:
                f = proxy_cls.__dict__.get(name)
                if f is None or "syncreq" not in inspect.getsource(f):
                    missing.append("no forwarding method for %s" % name)
        o.samples.append({"names_checked": len(DATA_MODEL), "problems": missing[:5]})
        if missing:
            run.replay(o, "forwarder:%s" % missing[0].split()[-1], "; ".join(missing[:4]), '''import sys
sys.path.insert(0, __import__("os").environ.get("VERIF_REPO", "/repo"))
from rpyc.core import netref
from rpyc.lib import get_methods
import inspect
bad = []
for name in %r:
    cls = type("T", (object,), {name: (lambda self, *a, **k: None)})
    methods = dict(get_methods(netref.LOCAL_ATTRS, cls()))
    p = netref.class_factory(("mod.T", 1, 2), methods.items())
    if name not in netref.LOCAL_ATTRS and (p.__dict__.get(name) is None or "syncreq" not in inspect.getsource(p.__dict__[name])): bad.append(name)
    if name in netref.LOCAL_ATTRS and name in %r and name != "__cmp__":
        d = netref.BaseNetref.__dict__.get(name)
        if d is None or ("syncreq" not in inspect.getsource(d) and "__getattr__" not in inspect.getsource(d)): bad.append(name)
print(bad)
if bad:
    print("REPRODUCED"); sys.exit(1)
''' % (DATA_MODEL, SELF_FORWARDED))
    return ob


DIFF_RUNNER = '''
import sys, copy, io, collections, itertools, operator
sys.path.insert(0, __import__("os").environ.get("VERIF_REPO", "/repo")); sys.path.insert(0, "/verif")
from props import pairs
import rpyc
class Vec(object):
    """user class with operator overloads, a property and item access"""
    def __init__(self, xs=(1, 2)): self.xs = list(xs); self._hidden = 7
    def __add__(self, o): return Vec([a + b for a, b in zip(self.xs, o.xs if isinstance(o, Vec) else [o] * len(self.xs))])
    def __eq__(self, o): return isinstance(o, Vec) and self.xs == o.xs
    def __ne__(self, o): return not self.__eq__(o)
    def __hash__(self): return hash(tuple(self.xs))
    def __len__(self): return len(self.xs)
    def __getitem__(self, i): return self.xs[i]
    def __setitem__(self, i, v): self.xs[i] = v
    def __iter__(self): return iter(self.xs)
    def __contains__(self, v): return v in self.xs
    def __bool__(self): return bool(self.xs)
    def __repr__(self): return "Vec(%r)" % (self.xs,)
    def __call__(self, k=1): return sum(self.xs) * k
    def __enter__(self): self.xs.append("in"); return self
    swallow = False
    def __exit__(self, t, v, tb): self.xs.append("out" if t is None else "out-after-exception"); return self.swallow
    @property
    def total(self): return sum(x for x in self.xs if isinstance(x, int))
    def push(self, v, times=1): self.xs.extend([v] * times); return len(self.xs)
class SwallowingVec(Vec):
    """a context manager whose __exit__ swallows the exception raised in the body"""
    swallow = True
def gen3():
    yield 1; yield 2; yield 3
MAKERS = {
    "list": lambda: [3, 1, 2], "dict": lambda: {"a": 1, "b": 2}, "set": lambda: {1, 2}, "bytearray": lambda: bytearray(b"abc"),
    "deque": lambda: collections.deque([1, 2, 3], maxlen=4), "gen": gen3, "file": lambda: io.StringIO("l1\\nl2\\n"), "vec": lambda: Vec(),
    "ctx": lambda: SwallowingVec(),
}
def with_ctx(x):
    with x as y: return y.__class__.__name__
def with_raise(x):
    # the body raises: a context manager whose __exit__ returns a true value swallows the exception
    with x:
        raise KeyError("raised in the with body")
    return "swallowed"
OPS = {
    "list": ["x.append(5)", "x.pop()", "x.pop(7)", "x[0]", "x[9]", "x[-1]", "x[1:]", "x.sort()", "len(x)", "x.index(2)", "x.index(42)", "x == x", "x != (1,)",
             "bool(x)", "x.reverse()", "x[0] = 9", "del x[0]", "x + x", "x * 2", "list(x)", "5 in x", "x.insert(1, 'z')", "x.clear()", "x.extend((8, 9))",
             "x.count(1)", "sorted(x)", "str(x)", "repr(x)", "x.nope()", "x.nope", "iter(x).__next__()", "x[0:2] = (0,)", "x < (4,)", "hash(x)", "x.__len__()", "dir(x) == dir([])"],
    "dict": ["x['a']", "x['zz']", "x['c'] = 3", "del x['a']", "del x['q']", "len(x)", "sorted(x)", "x.get('a')", "x.get('q', 5)", "x.pop('a')", "x.pop('q')", "x.setdefault('k', 1)",
             "sorted(x.items())", "'a' in x", "x.update((('z', 0),))", "x.update(b=9)", "x == x", "bool(x)", "x.clear()", "list(x.keys())", "x.popitem()", "str(x)"],
    "set": ["x.add(5)", "x.remove(1)", "x.remove(9)", "x.discard(9)", "len(x)", "sorted(x)", "1 in x", "x | frozenset({7})", "x & frozenset({1})", "x - frozenset({1})", "x.pop() in (1, 2)", "x == frozenset({1, 2})", "x <= frozenset({1, 2, 3})", "x.clear()", "bool(x)"],
    "bytearray": ["x[0]", "x[5]", "x.append(100)", "x.append(300)", "len(x)", "x.decode()", "x[0:2]", "x += b'z'", "x.extend(b'qq')", "x == b'abc'", "x.upper()", "x.find(b'c')", "x.pop()", "x.reverse()"],
    "deque": ["x.append(9)", "x.appendleft(0)", "x.pop()", "x.popleft()", "len(x)", "list(x)", "x[0]", "x[8]", "x.rotate(1)", "x.maxlen", "x.clear()", "x.extend((7, 7, 7))", "3 in x", "x.count(1)"],
    "gen": ["next(x)", "list(x)", "x.send(None)", "x.close()", "next(x, 'end')", "sum(x)", "iter(x) is x or True"],
    "file": ["x.read()", "x.readline()", "x.read(2)", "x.tell()", "x.seek(1)", "x.write('w')", "x.getvalue()", "x.close()", "x.closed", "list(x)", "x.readlines()", "with_ctx(x)", "with_raise(x)", "x.truncate(2)", "x.nosuch"],
    "ctx": ["with_raise(x)", "with_ctx(x)", "x.xs", "len(x)", "x.swallow"],
    "vec": ["x + x", "(x + 1).xs", "x == x", "x != 0", "len(x)", "x[0]", "x[5]", "x[0] = 4", "list(x)", "2 in x", "bool(x)", "repr(x)", "x()", "x(k=3)", "x.total", "x.push(9)", "x.push(1, times=2)",
            "with_ctx(x)", "with_raise(x)", "x.swallow = True", "x.xs", "x._hidden", "x.nope", "x.total = 3", "x.extra = 1", "del x.xs", "hash(x) == hash(tuple(x.xs)) if all(isinstance(i, int) for i in x.xs) else True",
            "isinstance(x, Vec)", "x.__class__.__name__", "str(x)",
            # hash, mutate, hash again as one step (the quick tier's sequences are too short for it): a proxy must not remember the first answer
            "[hash(x) == hash(tuple(x.xs)), x.push(9), hash(x) == hash(tuple(x.xs))] if all(isinstance(i, int) for i in x.xs) else True"],
}
def norm(v, depth=0):
    """value comparable across the two worlds: results that are objects living on the target's side are described structurally"""
    if isinstance(v, rpyc.BaseNetref):
        try:
            t = v.__class__.__name__
        except Exception as e:
            return ("proxy?", type(e).__name__)
        if t in ("list", "tuple", "set", "frozenset", "deque", "dict_keys", "dict_items", "dict_values", "list_iterator", "bytearray") and depth < 3:
            try: return (t, [norm(i, depth + 1) for i in (sorted(v, key=repr) if t in ("set", "frozenset") else v)])
            except Exception as e: return (t, "iter failed", type(e).__name__)
        if t == "dict": return ("dict", sorted((norm(k, depth + 1), norm(v[k], depth + 1)) for k in v))
        if t == "Vec":
            try: return ("Vec", norm(v.xs, depth + 1))
            except AttributeError: return ("Vec", "<deleted>")
        return ("object", t)
    if isinstance(v, (list, tuple, collections.deque)) and not isinstance(v, str): return (type(v).__name__, [norm(i, depth + 1) for i in v])
    if isinstance(v, (set, frozenset)): return (type(v).__name__, [norm(i, depth + 1) for i in sorted(v, key=repr)])
    if isinstance(v, dict): return ("dict", sorted((norm(k, depth + 1), norm(x, depth + 1)) for k, x in v.items()))
    if isinstance(v, (type({}.keys()), type({}.items()), type({}.values()))): return (type(v).__name__, [norm(i, depth + 1) for i in v])
    if isinstance(v, bytearray): return ("bytearray", [norm(i) for i in v])
    if isinstance(v, Vec): return ("Vec", norm(getattr(v, "xs", "<deleted>"), depth + 1))
    if type(v).__name__ in ("list_iterator", "generator", "StringIO", "method", "builtin_function_or_method", "function", "type"): return ("object", type(v).__name__)
    return v
def state_of(kind, obj):
    if kind == "gen": return "gen"
    if kind == "file": return ("file", obj.closed, None if obj.closed else obj.getvalue(), None if obj.closed else obj.tell())
    return norm(copy.deepcopy(obj) if kind != "vec" else obj)
def apply(op, x):
    env = {"x": x, "Vec": Vec, "with_ctx": with_ctx, "with_raise": with_raise}
    try:
        if any(op.startswith(p) for p in ("del ",)) or (" = " in op and "==" not in op) or "+=" in op:
            exec(op, env); return ("ok", None)
        return ("ok", norm(eval(op, env)))
    except Exception as e:
        name = type(e).__name__
        return ("exc", name if not name.startswith("builtins.") else name.split(".")[-1])
def run_sequences(kind, seqs, cfg):
    """each sequence on a fresh object: through a proxy (object lives on side b) and on a local twin"""
    bad = []
    class Svc(rpyc.Service):
        def exposed_make(self): self.obj = MAKERS[kind](); return self.obj
        def exposed_state(self): return repr(state_of(kind, self.obj))
    svc = Svc()
    pair = pairs.Pair(service_b=svc, config_a=cfg, config_b=cfg)
    try:
        for seq in seqs:
            proxy = pair.a.root.make()
            twin = MAKERS[kind]()
            def loose(r):
                # outside classic mode the harness itself cannot read the attributes of a returned user object
                return (r[0], ("Vec",)) if (not cfg.get("allow_all_attrs") and isinstance(r[1], tuple) and r[1][:1] == ("Vec",)) else r
            for op in seq:
                a = loose(apply(op, proxy))
                b = loose(apply(op, twin))
                if cfg.get("allow_all_attrs"):
                    same = a == b
                else:
                    # public / default configuration: a denied operation must fail with AttributeError and leave the target alone; a permitted one must agree
                    same = a == b or a == ("exc", "AttributeError")
                    if a == ("exc", "AttributeError") and b[0] == "ok":
                        twin = None; break       # states diverge legitimately from here on
                if not same:
                    bad.append((kind, seq, op, a, b)); break
            if twin is not None and not bad:
                sa, sb = pair.a.root.state(), repr(state_of(kind, twin))
                if sa != sb: bad.append((kind, seq, "final state", sa, sb))
            if len(bad) >= 3: break
    finally:
        pair.close()
    return bad
'''


def ob_transparency(run, seqlen):
    def ob(o):
        import subprocess
        import json
        import os
        import tempfile
        o.symbolic = ["operation sequences of length <= %d from per-type pools (9 target types, 14-36 operations each incl. error cases), 3 configurations" % seqlen]
        o.bounds = {"sequence_length": seqlen, "decided_by": "exhaustive differential execution on two real connections vs a local twin (no solver variables)"}
        script = DIFF_RUNNER + '''
import json
CFGS = {"classic": dict(allow_all_attrs=True, allow_setattr=True, allow_delattr=True, allow_public_attrs=True),
        "public": dict(allow_public_attrs=True, allow_setattr=True, allow_delattr=True), "default": dict()}
n = 0; bad = []
for cname, cfg in CFGS.items():
    for kind, ops in OPS.items():
        L = %d if len(ops) <= 24 else max(1, %d - 1)
        if cname == "default": L = 1
        seqs = [s for k in range(1, L + 1) for s in itertools.product(ops, repeat=k)]
        n += len(seqs)
        b = run_sequences(kind, seqs, cfg)
        bad.extend((cname,) + x for x in b)
print(json.dumps(dict(n=n, bad=[list(map(str, x)) for x in bad[:5]])))
''' % (seqlen, seqlen)
        with tempfile.NamedTemporaryFile("w", suffix=".py", delete=False) as tf:
            tf.write(script)
        try:
            p = subprocess.run(["/venv/bin/python", tf.name], capture_output=True, text=True, timeout=2400,
                               env=dict(os.environ, PYTHONPATH=os.environ.get("VERIF_REPO", "/repo")))
        finally:
            os.unlink(tf.name)
        if p.returncode != 0:
            raise core.HarnessError("differential runner failed: %s" % (p.stdout + p.stderr)[-600:])
        out = json.loads(p.stdout.strip().splitlines()[-1])
        o.paths = {"sequences": out["n"]}
        o.samples.append({"sequences_executed": out["n"], "example": ["x.append(5)", "x.pop(7)"]})
        if out["bad"]:
            b = out["bad"][0]
            run.replay(o, "transparency:%s:%s" % (b[1], b[3][:20]), "through a proxy %s differs from the twin: config %s, type %s, sequence %s: proxy %s, twin %s" % (
                b[3], b[0], b[1], b[2], b[4], b[5]), DIFF_RUNNER + '''
cfg = %r
b = run_sequences(%r, [%s], cfg)
print(b)
if b:
    print("REPRODUCED"); sys.exit(1)
''' % ({"classic": dict(allow_all_attrs=True, allow_setattr=True, allow_delattr=True, allow_public_attrs=True),
        "public": dict(allow_public_attrs=True, allow_setattr=True, allow_delattr=True), "default": {}}[b[0]], b[1], b[2]))
    return ob


def ob_buffiter(run, interp, nmax):
    from rpyc.utils import helpers
    from rpyc.core import netref
    from rpyc.core.protocol import Connection
    from rpyc.core import consts

    def ob(o):
        o.symbolic = ["length n of the remote iterator: Int in [0, %d]" % nmax, "chunk: Int >= 1", "max_chunk: Int >= 1", "factor in {1, 2, 3}"]
        o.bounds = {"items": nmax, "requests_unwound": nmax + 2}
        o.stubs = ["syncreq(it, HANDLE_BUFFITER, count) := the real Connection._handle_buffiter applied to the remote iterator (the round trip itself is C01)"]
        acc = Acc()

        def harness(c):
            n = c.choose(nmax + 1, "n")
            chunk = SymInt(c.fresh_int("chunk"))
            maxc = SymInt(c.fresh_int("max_chunk"))
            factor = 1 + c.choose(3, "factor")
            c.assume(z3.And(chunk.e >= 1, maxc.e >= 1))
            remote = iter(range(n))
            conn = object.__new__(Connection)
            conn._closed = True
            requests = []

            def fake_syncreq(interp_, it, handler, *args):
                if handler != consts.HANDLE_BUFFITER:
                    raise core.HarnessError("unexpected handler %r" % (handler,))
                requests.append(args[0])
                return interp_.call(Connection._handle_buffiter, (conn, remote, args[0]))
            interp.override_global(helpers, "syncreq", lambda *a: fake_syncreq(interp, *a))
            c.notes.update(n=n, requests=requests, chunk=chunk, maxc=maxc, factor=factor)
            out = []
            for x in interp.call(helpers.buffiter, (remote,), dict(chunk=chunk, max_chunk=maxc, factor=factor)):
                out.append(x)
                if len(out) > nmax + 2:
                    break
            return out

        def on_path(r):
            c = r.ctx
            if r.outcome == "abort" or "n" not in c.notes:
                return
            n = c.notes
            acc.inc("n%d" % n["n"])
            bad = None
            if r.outcome != "return":
                bad = "buffiter raised %s: %s" % (type(r.exc).__name__ if r.exc else r.outcome, r.exc)
            elif r.value != list(range(n["n"])):
                bad = "buffiter yielded %r for a remote iterator of %d items" % (r.value, n["n"])
            if len(o.samples) < 4 and r.outcome == "return":
                o.samples.append({"n": n["n"], "requests": len(n["requests"]), "factor": n["factor"]})
            if bad and len(o.violations) < 2:
                m = c.check_model()
                if m is None:
                    return
                cv = m.eval(n["chunk"].e, model_completion=True).as_long()
                mv = m.eval(n["maxc"].e, model_completion=True).as_long()
                run.replay(o, "buffiter", "%s (chunk=%d, max_chunk=%d, factor=%d)" % (bad, cv, mv, n["factor"]), '''import sys
sys.path.insert(0, __import__("os").environ.get("VERIF_REPO", "/repo"))
import rpyc
from rpyc.utils.helpers import buffiter
conn = rpyc.classic.connect_thread()
n, chunk, maxc, factor = %d, %d, %d, %d
try:
    got = list(buffiter(conn.builtin.range(n), chunk, maxc, factor))
except Exception as e:
    got = repr(e)
conn.close()
print(got)
if got != list(range(n)):
    print("REPRODUCED"); sys.exit(1)
''' % (n["n"], cv, mv, n["factor"]))

        interp.on_bound = "cut"
        saved = interp.loop_bound
        interp.loop_bound = nmax + 3
        try:
            n_, incomplete = par_explore(run, o, harness, on_path, acc, split_depth=3)
        finally:
            interp.on_bound = "raise"
            interp.loop_bound = saved
        o.paths = dict(acc.counts, total=n_)
        if incomplete:
            o.verdict = "inconclusive"
            o.detail = incomplete
        if len(acc.counts) < nmax + 1:
            raise core.HarnessError("reachability twin: %s" % acc.counts)
    return ob


def main():
    run = Run("C02", level="other")
    interp = Interp()
    thorough = run.tier == "thorough"
    run.assumptions = ["semantics of the built-in containers themselves are CPython's on both sides (the twin runs the same interpreter)",
                       "O1/O2 are exhaustive enumeration / differential execution on real connections (no solver variables); O3 is decided symbolically",
                       "chunk/max_chunk < 1 and non-integer factors are outside (undocumented domain)"]
    run.obligation("O1_forwarders", "every data-model / ordinary method name gets a forwarding method or is forwarded by BaseNetref itself", ob_forwarders(run))
    run.obligation("O2_transparency", "every operation sequence gives the same results, exception classes and final target state through a proxy as on a local twin",
                   ob_transparency(run, 3 if thorough else 2))
    run.obligation("O3_buffiter", "buffered iteration yields exactly the remote items in order for every chunk/max_chunk/factor", ob_buffiter(run, interp, 7 if thorough else 5))
    run.note_encoded(interp)
    sys.exit(run.finish())


if __name__ == "__main__":
    main()
