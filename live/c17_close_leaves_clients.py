"""Live demonstration (real sockets, real threads/processes, no model) for property C17:
after server.close() a client that is still connected must observe end-of-stream.

usage: PYTHONPATH=<rpyc tree> /venv/bin/python c17_close_leaves_clients.py pool|forking|threaded
exit 1 + REPRODUCED when the connected client is NOT terminated by close().
"""
import os, sys, socket, time, threading, logging
sys.path.insert(0, os.environ.get("VERIF_REPO", "/repo"))
import rpyc
from rpyc.utils.server import ThreadPoolServer, ForkingServer, ThreadedServer

kind = sys.argv[1] if len(sys.argv) > 1 else "pool"
logging.disable(logging.CRITICAL)
hooks = []


class Svc(rpyc.Service):
    def on_disconnect(self, conn):
        hooks.append(1)

    def exposed_ping(self):
        return "pong"


def observe_eof(conn):
    """reads whatever the server still sends; True when end-of-stream (or a reset) arrives within 3 s"""
    sock = conn._channel.stream.sock
    sock.settimeout(3)
    try:
        while True:
            if sock.recv(4096) == b"":
                return True
    except socket.timeout:
        return False
    except OSError:
        return True


if kind == "forking":
    # the forking server needs the main thread (signals): it runs in a child process of this script and is closed by
    # SIGINT, which Server.start() turns into close()
    import signal
    r, w = os.pipe()
    pid = os.fork()
    if pid == 0:
        os.close(r)
        srv = ForkingServer(Svc, hostname="127.0.0.1", port=0, auto_register=False)
        srv._listen()
        os.write(w, str(srv.port).encode() + b"\n")
        devnull = os.open(os.devnull, os.O_WRONLY)
        os.dup2(devnull, 1)
        os.dup2(devnull, 2)
        srv.start()            # returns after KeyboardInterrupt -> close()
        os._exit(0)
    os.close(w)
    port = int(os.read(r, 32).split()[0])
    conn = rpyc.connect("127.0.0.1", port, config=dict(sync_request_timeout=5))
    assert conn.root.ping() == "pong"
    os.kill(pid, signal.SIGINT)
    _, status = os.waitpid(pid, 0)
    print("server process has closed and exited (status %d)" % status)
    eof = observe_eof(conn)
    print("client observed end-of-stream within 3 s of close():", eof)
    if not eof:
        try:
            print("a call made after close() still answers:", conn.root.ping())
        except Exception as e:
            print("a call made after close():", repr(e))
        print("REPRODUCED")
        os._exit(1)
    os._exit(0)

cls = {"pool": ThreadPoolServer, "threaded": ThreadedServer}[kind]
kw = dict(hostname="127.0.0.1", port=0, auto_register=False)
if kind == "pool":
    kw["nbThreads"] = 2
srv = cls(Svc, **kw)
srv._start_in_thread()
conn = rpyc.connect("127.0.0.1", srv.port, config=dict(sync_request_timeout=5))
assert conn.root.ping() == "pong"
if kind == "pool":
    print("tracked client sockets before close():", len(srv.clients), "| fd_to_conn:", len(srv.fd_to_conn))
closer = threading.Thread(target=srv.close)
closer.daemon = True
closer.start()
closer.join(5)
print("close() returned:", not closer.is_alive())
eof = observe_eof(conn)
print("client observed end-of-stream within 3 s of close():", eof)
if not eof:
    try:
        print("a call made after close() still answers:", conn.root.ping())
    except Exception as e:
        print("a call made after close():", repr(e))
time.sleep(0.2)
print("disconnect hooks run:", len(hooks))
if not eof or not hooks:
    print("REPRODUCED")
    os._exit(1)
os._exit(0)
