"""C13 -- threads sharing a connection never cross, duplicate or lose replies (driver: props/c14.py)."""
from props.c14 import main

if __name__ == "__main__":
    main("C13")
