"""Independent reference implementation of the published rpyc 5.x wire format
(pure Python, no rpyc, no solver): brine value codec, channel frame, protocol
constants.  Typed in from the published format description; used as the oracle
of C19 and inside replay scripts.
"""
import struct
import zlib

# ---- brine tag table --------------------------------------------------------
T_NONE, T_EMPTY_BYTES, T_EMPTY_TUPLE, T_TRUE, T_FALSE, T_NOTIMPL, T_ELLIPSIS = 0x00, 0x01, 0x02, 0x03, 0x04, 0x05, 0x06
T_UNICODE = 0x08
T_BYTES_1, T_BYTES_2, T_BYTES_3, T_BYTES_4, T_BYTES_L1, T_BYTES_L4 = 0x0a, 0x0b, 0x0c, 0x0d, 0x0e, 0x0f
T_TUP_1, T_TUP_2, T_TUP_3, T_TUP_4, T_TUP_L1, T_TUP_L4 = 0x10, 0x11, 0x12, 0x13, 0x14, 0x15
T_INT_L1, T_INT_L4 = 0x16, 0x17
T_FLOAT, T_SLICE, T_FSET, T_COMPLEX = 0x18, 0x19, 0x1a, 0x1b
IMM_LO, IMM_HI, IMM_BIAS = -0x30, 0xa0, 0x50     # immediate ints: byte = i + 0x50, -0x30 <= i < 0xa0

# ---- frame ------------------------------------------------------------------
COMPRESSION_THRESHOLD = 3000
FLUSHER = b"\n"
MAX_IO_CHUNK = 64000

# ---- protocol constants -----------------------------------------------------
MSG = dict(REQUEST=1, REPLY=2, EXCEPTION=3)
LABEL = dict(VALUE=1, TUPLE=2, LOCAL_REF=3, REMOTE_REF=4)
HANDLE = dict(PING=1, CLOSE=2, GETROOT=3, GETATTR=4, DELATTR=5, SETATTR=6, CALL=7, CALLATTR=8, REPR=9, STR=10,
              CMP=11, HASH=12, DIR=13, PICKLE=14, DEL=15, INSPECT=16, BUFFITER=17, OLDSLICING=18, CTXEXIT=19,
              INSTANCECHECK=20)
EXC_STOP_ITERATION = 1


def encode(v):
    """shortest-form brine encoding of a plain immutable value"""
    t = type(v)
    if v is None:
        return bytes([T_NONE])
    if v is NotImplemented:
        return bytes([T_NOTIMPL])
    if v is Ellipsis:
        return bytes([T_ELLIPSIS])
    if t is bool:
        return bytes([T_TRUE if v else T_FALSE])
    if t is int:
        if IMM_LO <= v < IMM_HI:
            return bytes([v + IMM_BIAS])
        d = str(v).encode("ascii")
        if len(d) < 256:
            return bytes([T_INT_L1, len(d)]) + d
        return bytes([T_INT_L4]) + struct.pack(">I", len(d)) + d
    if t is float:
        return bytes([T_FLOAT]) + struct.pack(">d", v)
    if t is complex:
        return bytes([T_COMPLEX]) + struct.pack(">dd", v.real, v.imag)
    if t is bytes:
        n = len(v)
        if n == 0:
            return bytes([T_EMPTY_BYTES])
        if n <= 4:
            return bytes([T_BYTES_1 + n - 1]) + v
        if n < 256:
            return bytes([T_BYTES_L1, n]) + v
        return bytes([T_BYTES_L4]) + struct.pack(">I", n) + v
    if t is str:
        return bytes([T_UNICODE]) + encode(v.encode("utf-8"))
    if t is tuple:
        n = len(v)
        if n == 0:
            head = bytes([T_EMPTY_TUPLE])
        elif n <= 4:
            head = bytes([T_TUP_1 + n - 1])
        elif n < 256:
            head = bytes([T_TUP_L1, n])
        else:
            head = bytes([T_TUP_L4]) + struct.pack(">I", n)
        return head + b"".join(encode(x) for x in v)
    if t is slice:
        return bytes([T_SLICE]) + encode((v.start, v.stop, v.step))
    if t is frozenset:
        return bytes([T_FSET]) + encode(tuple(v))
    raise TypeError("not a plain immutable value: %r" % (t,))


class _R(object):
    def __init__(self, b):
        self.b = b
        self.i = 0

    def take(self, n):
        if self.i + n > len(self.b):
            raise ValueError("truncated")
        r = self.b[self.i:self.i + n]
        self.i += n
        return r


def decode(b, allow_nonshortest=True):
    r = _R(b)
    return _dec(r)


def _dec(r):
    tag = r.take(1)[0]
    if IMM_LO + IMM_BIAS <= tag < IMM_HI + IMM_BIAS:
        return tag - IMM_BIAS
    if tag == T_NONE:
        return None
    if tag == T_NOTIMPL:
        return NotImplemented
    if tag == T_ELLIPSIS:
        return Ellipsis
    if tag == T_TRUE:
        return True
    if tag == T_FALSE:
        return False
    if tag == T_EMPTY_BYTES:
        return b""
    if tag == T_EMPTY_TUPLE:
        return ()
    if T_BYTES_1 <= tag <= T_BYTES_4:
        return r.take(tag - T_BYTES_1 + 1)
    if tag == T_BYTES_L1:
        return r.take(r.take(1)[0])
    if tag == T_BYTES_L4:
        return r.take(struct.unpack(">I", r.take(4))[0])
    if tag == T_UNICODE:
        return _dec(r).decode("utf-8")
    if T_TUP_1 <= tag <= T_TUP_4:
        return tuple(_dec(r) for _ in range(tag - T_TUP_1 + 1))
    if tag == T_TUP_L1:
        return tuple(_dec(r) for _ in range(r.take(1)[0]))
    if tag == T_TUP_L4:
        return tuple(_dec(r) for _ in range(struct.unpack(">I", r.take(4))[0]))
    if tag == T_INT_L1:
        return int(r.take(r.take(1)[0]))
    if tag == T_INT_L4:
        return int(r.take(struct.unpack(">I", r.take(4))[0]))
    if tag == T_FLOAT:
        return struct.unpack(">d", r.take(8))[0]
    if tag == T_COMPLEX:
        return complex(*struct.unpack(">dd", r.take(16)))
    if tag == T_SLICE:
        return slice(*_dec(r))
    if tag == T_FSET:
        return frozenset(_dec(r))
    raise ValueError("unknown tag 0x%02x" % tag)


def frame(payload, compress=True):
    """one packet: 4-byte big-endian length, compression flag, payload, newline"""
    flag = 0
    if compress and len(payload) > COMPRESSION_THRESHOLD:
        payload = zlib.compress(payload, 1)
        flag = 1
    return struct.pack(">IB", len(payload), flag) + payload + FLUSHER


def unframe(stream_bytes):
    """-> (payload, rest)"""
    n, flag = struct.unpack(">IB", stream_bytes[:5])
    body = stream_bytes[5:5 + n]
    if len(body) != n or stream_bytes[5 + n:5 + n + 1] != FLUSHER:
        raise ValueError("truncated frame")
    if flag:
        body = zlib.decompress(body)
    return body, stream_bytes[5 + n + 1:]


def same(a, b):
    """type-exact, bit-exact structural equality of plain values"""
    if type(a) is not type(b):
        return False
    if type(a) is float:
        return struct.pack(">d", a) == struct.pack(">d", b)
    if type(a) is complex:
        return struct.pack(">dd", a.real, a.imag) == struct.pack(">dd", b.real, b.imag)
    if type(a) is tuple:
        return len(a) == len(b) and all(same(x, y) for x, y in zip(a, b))
    if type(a) is slice:
        return same((a.start, a.stop, a.step), (b.start, b.stop, b.step))
    if type(a) is frozenset:
        return a == b and all(any(same(x, y) for y in b) for x in a)
    return a == b


def is_plain(v):
    t = type(v)
    if v is None or v is NotImplemented or v is Ellipsis:
        return True
    if t in (bool, int, float, complex, bytes, str):
        return True
    if t in (tuple, frozenset):
        return all(is_plain(x) for x in v)
    if t is slice:
        return is_plain(v.start) and is_plain(v.stop) and is_plain(v.step)
    return False
