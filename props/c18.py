"""C18 -- the registry reflects exactly the live registrations and cannot be knocked over.

Encoded (re-read from /repo at every run): RegistryServer.cmd_query/cmd_register/
cmd_unregister/_add_service/_remove_service/_work, TCPRegistryServer._recv/_send,
UDPRegistryServer._recv/_send.
"""
import socket
import sys

import z3

from engine import core, values as V
from engine.core import ctx
from engine.harness import Run, Acc, par_explore
from engine.interp import Interp
from engine.values import Sym, SymReal

from engine.harness import tier as _tier
NAMES = ["FOO", "BAR"]
ADDRS = [("h1", 1), ("h2", 2)]
NEW_ADDR = ("h3", 3)
if _tier() == "thorough":
    # a third known name and a third known address: 2^9 membership patterns instead of 2^4
    NAMES.append("BAZ")
    ADDRS.append(("h4", 4))


class Log(object):
    def __init__(self):
        self.lines = []

    def debug(self, *a, **k):
        self.lines.append(("debug", a))

    info = warn = warning = error = debug

    def exception(self, *a, **k):
        self.lines.append(("exception", a))


class TimeModule(object):
    def __init__(self):
        self.now = None

    def time(self):
        return SymReal(self.now)


def make_server(interp, c, cls_name="UDPRegistryServer"):
    """a registry in an arbitrary well-formed state: membership of each
    (name, address) pair is a choice, every timestamp a solver Real <= now"""
    from rpyc.utils import registry
    base = getattr(registry, cls_name)
    notes = []

    class Spy(base):
        def on_service_added(self, name, addrinfo):
            notes.append(("added", name, addrinfo))

        def on_service_removed(self, name, addrinfo):
            notes.append(("removed", name, addrinfo))
    srv = object.__new__(Spy)
    srv.logger = Log()
    srv.active = True
    srv.port = 18811
    tm = TimeModule()
    now = c.fresh_real("now")
    tm.now = now
    interp.override_global(registry, "time", tm)
    P = c.fresh_real("pruning_timeout")
    c.assume(P >= 0)
    srv.pruning_timeout = SymReal(P)
    services = {}
    state = {}
    for n in NAMES:
        for a in ADDRS:
            if c.choose(2, "member") == 1:
                t = c.fresh_real("t_%s_%s" % (n, a[0]))
                c.assume(t <= now)
                services.setdefault(n, {})[a] = SymReal(t)
                state[(n, a)] = t
    srv.services = services
    return srv, notes, state, now, P


def snapshot(srv):
    out = {}
    for n, d in srv.services.items():
        for a, t in d.items():
            out[(n, a)] = t
    return out


REPLAY_HEAD = '''# replay of a counterexample found by /verif (property C18) on the real rpyc
import sys, socket, logging
sys.path.insert(0, __import__("os").environ.get("VERIF_REPO", "/repo"))
from rpyc.utils import registry
from rpyc.core import brine
class Clock(object):
    now = 1000.0
    def time(self): return self.now
clock = Clock(); registry.time = clock
class Log(object):
    def debug(self, *a, **k): pass
    info = warn = warning = error = exception = debug
notes = []
def make(cls, state, pruning):
    class Spy(cls):
        def on_service_added(self, n, a): notes.append(("added", n, a))
        def on_service_removed(self, n, a): notes.append(("removed", n, a))
    s = object.__new__(Spy); s.logger = Log(); s.active = True; s.port = 1; s.pruning_timeout = pruning
    s.services = {}
    for (n, a), t in state.items(): s.services.setdefault(n, {})[a] = t
    return s
'''


def ob_commands(run, interp):
    from rpyc.utils.registry import RegistryServer

    CMDS = ["register", "unregister", "query"]

    def ob(o):
        o.symbolic = ["registry state: membership of each of %d (name,address) pairs (exhaustive), every timestamp Real <= now" % (len(NAMES) * len(ADDRS)),
                      "clock now: Real; pruning interval: Real >= 0", "command and its arguments: exhaustive over known/new names (any letter case) and known/new addresses"]
        o.bounds = {"names": len(NAMES), "addresses": len(ADDRS), "inductive": "one command from an arbitrary well-formed state"}
        acc = Acc()

        def harness(c):
            srv, notes, state, now, P = make_server(interp, c)
            cmd = CMDS[c.choose(3, "cmd")]
            c.notes.update(srv=srv, notes=notes, state=state, now=now, P=P, cmd=cmd)
            if cmd == "register":
                addr = (ADDRS + [NEW_ADDR])[c.choose(3, "addr")]
                names = [("foo",), ("Bar", "foo"), ("baz",), ()][c.choose(4, "names")]
                c.notes.update(addr=addr, names=names)
                return interp.call(RegistryServer.cmd_register, (srv, addr[0], names, addr[1]))
            if cmd == "unregister":
                addr = (ADDRS + [NEW_ADDR])[c.choose(3, "addr")]
                c.notes.update(addr=addr)
                return interp.call(RegistryServer.cmd_unregister, (srv, addr[0], addr[1]))
            name = ["foo", "BAR", "bAz"][c.choose(3, "name")]
            c.notes.update(name=name)
            return interp.call(RegistryServer.cmd_query, (srv, "client", name))

        def on_path(r):
            c = r.ctx
            if r.outcome == "abort":
                return
            if r.outcome == "bound":
                raise core.BoundExceeded(str(r.exc))
            n = c.notes
            cmd, state, now, P, srv = n["cmd"], n["state"], n["now"], n["P"], n["srv"]
            after = snapshot(srv)
            notes = list(n["notes"])
            conds = []
            bad = None
            acc.inc(cmd)
            if r.outcome == "raise":
                bad = "%s raised %s" % (cmd, type(r.exc).__name__)
            elif cmd == "register":
                addr = n["addr"]
                exp = dict(state)
                exp_notes = []
                for nm in n["names"]:
                    k = (nm.upper(), addr)
                    if k not in exp:
                        exp_notes.append(("added", k[0], addr))
                    exp[k] = now
                if r.value != "OK":
                    bad = "register replied %r" % (r.value,)
                elif set(after) != set(exp):
                    bad = "register: membership %s, expected %s" % (sorted(after), sorted(exp))
                elif sorted(notes) != sorted(exp_notes):
                    bad = "register: notifications %s, expected %s" % (notes, exp_notes)
                else:
                    for k in exp:
                        conds.append(V.term(after[k]) == exp[k])
            elif cmd == "unregister":
                addr = n["addr"]
                exp = dict((k, t) for k, t in state.items() if k[1] != addr)
                exp_notes = [("removed", k[0], addr) for k in state if k[1] == addr]
                if r.value != "OK":
                    bad = "unregister replied %r" % (r.value,)
                elif set(after) != set(exp):
                    bad = "unregister: membership %s, expected %s" % (sorted(after), sorted(exp))
                elif sorted(notes) != sorted(exp_notes):
                    bad = "unregister: notifications %s but the address was registered under %s" % (
                        notes, sorted(k[0] for k in state if k[1] == addr))
                else:
                    for k in exp:
                        conds.append(V.term(after[k]) == exp[k])
                if any(len(d) == 0 for d in srv.services.values()):
                    bad = bad or "empty name entry left behind"
            else:
                NAME = n["name"].upper()
                reply = r.value
                mine = dict((k[1], t) for k, t in state.items() if k[0] == NAME)
                if type(reply) is not tuple or any(a not in mine for a in reply) or len(set(reply)) != len(reply):
                    bad = "query replied %r; registered under %s: %s" % (reply, NAME, sorted(mine))
                else:
                    for a, t in mine.items():
                        live = t >= now - P
                        conds.append(z3.BoolVal(a in reply) == live)
                        # pruned exactly when stale; others untouched
                        conds.append(z3.BoolVal((NAME, a) in after) == live)
                        conds.append(z3.BoolVal(notes.count(("removed", NAME, a)) == 1) == z3.Not(live))
                    for a, b in zip(reply, reply[1:]):
                        conds.append(mine[a] <= mine[b])
                    others = [k for k in state if k[0] != NAME]
                    if any(k not in after for k in others) or any(x[1] != NAME for x in notes) or any(x[0] != "removed" for x in notes):
                        bad = "query touched registrations of another name: %s" % (notes,)
            model = None
            if bad is None and conds:
                ok, model = c.must_hold(z3.And(*conds))
                if not ok:
                    bad = "%s: reply/state/notifications differ from the reference model" % cmd
            if len(o.samples) < 6:
                o.samples.append({"cmd": cmd, "state": sorted(map(str, state)), "notes": [str(x) for x in notes]})
            if bad and len(o.violations) < 3:
                m = model or c.check_model()
                if m is None:
                    return
                st = dict((k, _rv(m, t)) for k, t in state.items())
                args = dict((k, n[k]) for k in ("addr", "names", "name") if k in n)
                sig = "cmd:%s:%s" % (cmd, bad.split(":")[1].split()[0] if ":" in bad else bad.split()[1])
                if any(v["signature"] == sig for v in o.violations):
                    return
                run.replay(o, sig, "%s (state %s, args %s)" % (bad, st, args), replay_cmd(cmd, st, args, _rv(m, now), _rv(m, P)))

        n, incomplete = par_explore(run, o, harness, on_path, acc, split_depth=5)
        o.paths = dict(acc.counts, total=n)
        if incomplete:
            o.verdict = "inconclusive"
            o.detail = incomplete
        for k in CMDS:
            if not acc.counts.get(k):
                raise core.HarnessError("reachability twin: command %s never completed" % k)
    return ob


def _rv(m, t):
    r = m.eval(t, model_completion=True)
    return float(r.numerator_as_long()) / float(r.denominator_as_long())


def replay_cmd(cmd, state, args, now, P):
    return REPLAY_HEAD + '''
cmd, state, args, now, P = %r, %r, %r, %r, %r
clock.now = now
s = make(registry.UDPRegistryServer, state, P)
before = dict(state)
bad = []
def call(f, *a):
    try:
        return f(*a)
    except Exception as e:
        print("the command raised", repr(e)); print("REPRODUCED"); sys.exit(1)
if cmd == "register":
    addr = args["addr"]; r = call(s.cmd_register, addr[0], args["names"], addr[1])
    exp = dict(before); expn = []
    for nm in args["names"]:
        k = (nm.upper(), addr)
        if k not in exp: expn.append(("added", k[0], addr))
        exp[k] = now
    after = dict(((n, a), t) for n, d in s.services.items() for a, t in d.items())
    if r != "OK" or after != exp or sorted(notes) != sorted(expn): bad.append(("register", after, notes))
elif cmd == "unregister":
    addr = args["addr"]; r = call(s.cmd_unregister, addr[0], addr[1])
    exp = dict((k, t) for k, t in before.items() if k[1] != addr)
    expn = [("removed", k[0], addr) for k in before if k[1] == addr]
    after = dict(((n, a), t) for n, d in s.services.items() for a, t in d.items())
    if r != "OK" or after != exp or sorted(notes) != sorted(expn): bad.append(("unregister", after, notes, "expected notifications", expn))
else:
    NAME = args["name"].upper()
    r = call(s.cmd_query, "client", args["name"])
    mine = dict((k[1], t) for k, t in before.items() if k[0] == NAME)
    live = sorted([a for a, t in mine.items() if t >= now - P], key=lambda a: mine[a])
    after = dict(((n, a), t) for n, d in s.services.items() for a, t in d.items())
    exp = dict((k, t) for k, t in before.items() if not (k[0] == NAME and k[1] not in live))
    expn = [("removed", NAME, a) for a in mine if a not in live]
    okorder = all(mine[a] <= mine[b] for a, b in zip(r, r[1:]))
    if sorted(r) != sorted(live) or not okorder or after != exp or sorted(notes) != sorted(expn): bad.append(("query", r, live, notes))
print(bad)
if bad:
    print("REPRODUCED"); sys.exit(1)
''' % (cmd, state, args, now, P)


# ---------------------------------------------------------------------------
DATAGRAMS = [
    ("not-a-tuple", 5),
    ("short-tuple", ("RPYC", "query")),
    ("long-tuple", ("RPYC", "query", ("FOO",), 1)),
    ("wrong-magic", ("XXXX", "query", ("FOO",))),
    ("magic-not-text", (5, "query", ("FOO",))),
    ("cmd-number", ("RPYC", 5, ())),
    ("cmd-none", ("RPYC", None, ())),
    ("cmd-bytes", ("RPYC", b"query", ("FOO",))),
    ("cmd-tuple", ("RPYC", ("query",), ("FOO",))),
    ("cmd-unknown", ("RPYC", "bogus", ())),
    ("cmd-private", ("RPYC", "QUERY", ("foo",))),
    ("args-not-iterable", ("RPYC", "query", 5)),
    ("args-too-few", ("RPYC", "query", ())),
    ("args-too-many", ("RPYC", "register", (("FOO",), 1, 2, 3))),
    ("names-not-iterable", ("RPYC", "register", (5, 1))),
    ("name-not-text", ("RPYC", "register", ((5,), 1))),
    ("query-name-not-text", ("RPYC", "query", (5,))),
    ("unhashable-port", ("RPYC", "register", (("FOO",), ()))),
    ("good-query", ("RPYC", "query", ("foo",))),
    ("good-register", ("RPYC", "register", (("foo",), 9))),
    ("good-unregister", ("RPYC", "unregister", (1,))),
    ("load-raises", None),
]


def ob_work(run, interp):
    """one iteration of the main loop on an arbitrary datagram"""
    from rpyc.utils.registry import RegistryServer
    from rpyc.core import brine

    def ob(o):
        o.symbolic = ["registry state as in O1 (membership exhaustive, timestamps Real)",
                      "datagram: brine.load raises, or yields one of %d plain shapes covering wrong magic, non-text/unknown command, wrong argument count/types" % (len(DATAGRAMS) - 1),
                      "sender address: known / unknown host"]
        o.stubs = ["_recv(): first call returns the datagram, the next one ends the loop", "brine.load: contract of C04 (raises or yields a plain value)"]
        acc = Acc()

        def harness(c):
            srv, notes, state, now, P = make_server(interp, c)
            kind, value = DATAGRAMS[c.choose(len(DATAGRAMS), "datagram")]
            sender = [("h1", 1), ("h9", 9)][c.choose(2, "sender")]
            calls = []
            sent = []

            def recv_stub(interp_, self_):
                calls.append(1)
                if len(calls) > 1:
                    self_.active = False
                    raise socket.timeout()
                return b"DATAGRAM", sender

            def send_stub(interp_, self_, data, addrinfo):
                sent.append((data, addrinfo))

            def load_stub(interp_, data):
                if value is None:
                    raise ValueError("undecodable")
                return value
            c.notes.update(srv=srv, notes=notes, state=state, kind=kind, sent=sent, sender=sender, value=value)
            interp.models[type(srv)._recv] = recv_stub
            interp.models[type(srv)._send] = send_stub
            interp.models[brine.load] = load_stub
            try:
                return interp.call(RegistryServer._work, (srv,))
            finally:
                interp.models.pop(type(srv)._recv, None)
                interp.models.pop(type(srv)._send, None)
                interp.models.pop(brine.load, None)

        def on_path(r):
            c = r.ctx
            if r.outcome == "abort":
                return
            if r.outcome == "bound":
                raise core.BoundExceeded(str(r.exc))
            n = c.notes
            kind = n["kind"]
            acc.inc(kind)
            bad = None
            after = snapshot(n["srv"])
            legit = kind.startswith("good-") or kind in ("cmd-private",)
            if r.outcome == "raise":
                bad = "the main loop died with %s on datagram %s" % (type(r.exc).__name__, kind)
            elif not legit and kind not in ("name-not-text", "unhashable-port", "names-not-iterable"):
                if set(after) != set(n["state"]) or n["notes"]:
                    bad = "malformed datagram %s altered registrations / fired notifications %s" % (kind, n["notes"])
                if n["sent"] and kind not in ("good-query",):
                    bad = bad or None
            if len(n["sent"]) > 1:
                bad = "more than one reply to one datagram"
            if len(o.samples) < 6:
                o.samples.append({"datagram": kind, "outcome": r.outcome, "replies": len(n["sent"])})
            if bad and not any(v["signature"] == "work:" + kind for v in o.violations) and len(o.violations) < 4:
                run.replay(o, "work:" + kind, bad, replay_work(n["value"], n["sender"]))

        n_, incomplete = par_explore(run, o, harness, on_path, acc, split_depth=6)
        o.paths = dict(acc.counts, total=n_)
        if incomplete:
            o.verdict = "inconclusive"
            o.detail = incomplete
        if len(acc.counts) != len(DATAGRAMS):
            raise core.HarnessError("reachability twin: datagram kinds reached %d of %d" % (len(acc.counts), len(DATAGRAMS)))
    return ob


def replay_work(value, sender):
    return REPLAY_HEAD + '''
value = %r; sender = %r
s = make(registry.UDPRegistryServer, {("FOO", ("h1", 1)): 990.0}, 240)
calls = []
def recv():
    calls.append(1)
    if len(calls) > 1:
        s.active = False; raise socket.timeout()
    return (brine.dump(value) if value is not None else b"\\xff\\xff"), sender
s._recv = recv
s._send = lambda data, addr: None
try:
    s._work()
    died = False
except Exception as e:
    print("main loop died:", type(e).__name__, e); died = True
if died or len(calls) < 2:
    print("REPRODUCED"); sys.exit(1)
''' % (value, sender)


# ---------------------------------------------------------------------------
class AcceptedSocket(object):
    """socket returned by accept(): blocking unless settimeout() is called; a
    recv() without a timeout on a silent client never returns"""

    def __init__(self, behaviour):
        self.timeout = None
        self.behaviour = behaviour
        self.closed = False
        self.hung = False

    def settimeout(self, t):
        self.timeout = t

    def getpeername(self):
        return ("h7", 7)

    def recv(self, n):
        if self.behaviour == "silent":
            if self.timeout is None:
                self.hung = True
                raise Hung()
            raise socket.timeout()
        if self.behaviour == "reset":
            raise socket.error(104, "reset")
        return b"DATA"

    def send(self, d):
        return len(d)

    def close(self):
        self.closed = True


class Hung(BaseException):
    pass


def ob_tcp(run, interp):
    from rpyc.utils.registry import TCPRegistryServer, RegistryServer

    def ob(o):
        o.symbolic = ["behaviour of the TCP client: sends data / stays silent / resets (exhaustive)"]
        o.stubs = [AcceptedSocket.__doc__.strip().replace("\n", " ")]
        acc = Acc()

        def harness(c):
            beh = ["data", "silent", "reset"][c.choose(3, "client")]
            srv = object.__new__(TCPRegistryServer)
            srv.logger = Log()
            srv.active = True
            srv._connected_sockets = {}
            acc_sock = AcceptedSocket(beh)

            class Listener(object):
                def accept(self):
                    return acc_sock, ("h7", 7)
            srv.sock = Listener()
            c.notes.update(beh=beh, sock=acc_sock)
            try:
                return interp.call(TCPRegistryServer._recv, (srv,))
            except Hung:
                return "HUNG"

        def on_path(r):
            c = r.ctx
            if r.outcome == "abort":
                return
            beh, s = c.notes["beh"], c.notes["sock"]
            acc.inc(beh)
            bad = None
            if r.outcome == "return" and r.value == "HUNG":
                bad = "a TCP client that connects and sends nothing blocks the registry in recv() forever (no timeout on the accepted socket)"
            elif r.outcome == "raise" and not isinstance(r.exc, (socket.error, socket.timeout)):
                bad = "_recv raised %s, which the main loop does not survive" % type(r.exc).__name__
            if len(o.samples) < 3:
                o.samples.append({"client": beh, "outcome": str(r.value)[:30] if r.outcome == "return" else type(r.exc).__name__})
            if bad:
                run.replay(o, "tcp:" + beh, bad, REPLAY_HEAD + '''
import threading, time
srv = registry.TCPRegistryServer(host="127.0.0.1", port=0, logger=Log())
port = srv.sock.getsockname()[1]
t = threading.Thread(target=srv.start); t.daemon = True; t.start()
time.sleep(0.3)
silent = socket.create_connection(("127.0.0.1", port))      # connects and sends nothing
time.sleep(0.3)
q = socket.create_connection(("127.0.0.1", port)); q.settimeout(8)
q.send(brine.dump(("RPYC", "QUERY", ("FOO",))))
t0 = time.time()
try:
    ans = brine.load(q.recv(1500)); ok = True
except Exception as e:
    ans = repr(e); ok = False
print("second client answered:", ok, ans, "after %.1fs" % (time.time() - t0))
if not ok:
    print("REPRODUCED"); sys.exit(1)
''')

        n_, incomplete = par_explore(run, o, harness, on_path, acc, workers=1)
        o.paths = dict(acc.counts, total=n_)
    return ob


def main():
    run = Run("C18", level="other")
    interp = Interp()
    run.assumptions = [
        "names/addresses are drawn from small concrete alphabets (2 known + 1 new each, any letter case); timestamps, the clock and the pruning interval are solver Reals",
        "brine.load on a datagram raises or yields a plain value (C04)",
        "an accepted TCP socket is blocking unless settimeout() is called; recv() on a silent blocking socket never returns",
    ]
    run.outside = ["real sockets and the OS datagram layer", "registry clients (RegistryClient.*)"]
    run.obligation("O1_commands", "register/unregister/query from an arbitrary state == reference model (reply, membership, notifications)", ob_commands(run, interp))
    run.obligation("O2_work_loop", "one main-loop iteration on an arbitrary datagram: loop survives, unnamed registrations untouched", ob_work(run, interp))
    run.obligation("O3_tcp_recv", "TCP receive never blocks without a timeout on an accepted socket", ob_tcp(run, interp))
    run.note_encoded(interp)
    sys.exit(run.finish())


if __name__ == "__main__":
    main()
