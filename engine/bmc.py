"""Engine B: schedule-symbolic bounded model checking of the real functions.

1. The AST of each encoded function (re-read from /repo at every run) is lowered
   to a control-flow graph whose locations are source statements (try/finally,
   with, while/continue/return are lowered structurally; finally bodies are
   copied onto every exit path).
2. A *model* (per property) gives the meaning of the primitives the statements
   use (lock, queue, condition, channel ...) over a finite bit-vector state.
3. The transition relation "thread sched[t] executes the statement at its
   program counter" is unrolled K times with sched[t] as solver variables; bad
   states (and the unwinding assertion) are decided by z3 over all schedules.
Atomicity = one source statement, which is the granularity the properties name.
"""
import ast
import hashlib
import inspect
import textwrap
import time

import z3

from .core import Unsupported, HarnessError


class Node(object):
    __slots__ = ("label", "kind", "ast", "lineno", "succ", "func", "note")

    def __init__(self, label, kind, node, lineno, func):
        self.label = label
        self.kind = kind          # stmt | branch | return | raise | enter | exit | catch | nop
        self.ast = node
        self.lineno = lineno
        self.func = func
        self.succ = {}            # edge name -> label  (next/true/false/exc/match/nomatch)
        self.note = ""

    def __repr__(self):
        return "<%d %s@%s:%s %s>" % (self.label, self.kind, self.func, self.lineno, self.succ)


EXIT = -1        # normal return of the function
RAISED = -2      # function left by an exception


class CFG(object):
    """control-flow graph of one function"""

    def __init__(self, func, label_offset=0):
        src = textwrap.dedent(inspect.getsource(func))
        self.func = func
        self.name = func.__qualname__
        self.first_line = func.__code__.co_firstlineno
        tree = ast.parse(src)
        fdef = tree.body[0]
        ast.increment_lineno(tree, self.first_line - 1)
        self.fdef = fdef
        self.nodes = {}
        self._n = label_offset
        self.sha = hashlib.sha256(src.encode()).hexdigest()[:16]
        self.last_line = self.first_line + src.count("\n") - 1
        conts = dict(next=EXIT, brk=None, cont=None, ret=EXIT, exc=RAISED)
        body = fdef.body
        if body and isinstance(body[0], ast.Expr) and isinstance(getattr(body[0], "value", None), ast.Constant) and isinstance(body[0].value.value, str):
            body = body[1:]          # docstring
        self.entry = self.block(body, conts)

    def new(self, kind, node, lineno=None):
        self._n += 1
        n = Node(self._n, kind, node, lineno if lineno is not None else getattr(node, "lineno", 0), self.name)
        self.nodes[n.label] = n
        return n

    def block(self, stmts, conts):
        nxt = conts["next"]
        for s in reversed(stmts):
            nxt = self.stmt(s, dict(conts, next=nxt))
        return nxt

    def stmt(self, s, conts):
        t = type(s)
        if t in (ast.Assign, ast.AugAssign, ast.Expr, ast.Delete, ast.Pass, ast.Assert):
            n = self.new("stmt", s)
            n.succ = dict(next=conts["next"], exc=conts["exc"])
            return n.label
        if t is ast.Return:
            n = self.new("return", s)
            n.succ = dict(next=conts["ret"], exc=conts["exc"])
            return n.label
        if t is ast.Raise:
            n = self.new("raise", s)
            n.succ = dict(exc=conts["exc"])
            return n.label
        if t is ast.Continue:
            n = self.new("nop", s)
            n.succ = dict(next=conts["cont"])
            return n.label
        if t is ast.Break:
            n = self.new("nop", s)
            n.succ = dict(next=conts["brk"])
            return n.label
        if t is ast.If:
            n = self.new("branch", s.test, s.lineno)
            n.succ = dict(true=self.block(s.body, conts), false=self.block(s.orelse, conts) if s.orelse else conts["next"], exc=conts["exc"])
            return n.label
        if t is ast.While:
            head = self.new("branch", s.test, s.lineno)
            after = self.block(s.orelse, conts) if s.orelse else conts["next"]
            body = self.block(s.body, dict(conts, next=head.label, cont=head.label, brk=conts["next"]))
            head.succ = dict(true=body, false=after, exc=conts["exc"])
            return head.label
        if t is ast.For:
            head = self.new("for", s, s.lineno)
            after = self.block(s.orelse, conts) if s.orelse else conts["next"]
            body = self.block(s.body, dict(conts, next=head.label, cont=head.label, brk=conts["next"]))
            head.succ = dict(true=body, false=after, exc=conts["exc"])
            return head.label
        if t is ast.Try:
            return self.try_(s, conts)
        if t is ast.With:
            return self.with_(s, 0, conts)
        raise Unsupported("engine B: statement %s at line %s of %s" % (t.__name__, getattr(s, "lineno", "?"), self.name))

    def try_(self, s, conts):
        fin = s.finalbody

        def through_finally(target_key, target):
            """label of a copy of the finally body that continues to `target`"""
            if not fin or target is None:
                return target
            return self.block(fin, dict(conts, next=target))
        outer = dict((k, through_finally(k, v)) for k, v in conts.items())
        # exception handlers
        exc_target = outer["exc"]
        for h in reversed(s.handlers):
            hbody = self.block(h.body, dict(outer))
            c = self.new("catch", h.type, h.lineno)
            c.succ = dict(match=hbody, nomatch=exc_target)
            exc_target = c.label
        after_body = self.block(s.orelse, dict(outer)) if s.orelse else outer["next"]
        return self.block(s.body, dict(outer, next=after_body, exc=exc_target))

    def with_(self, s, i, conts):
        if i == len(s.items):
            return self.block(s.body, conts)
        item = s.items[i]

        def leaving(target):
            if target is None:
                return None
            x = self.new("exit", item.context_expr, s.lineno)
            x.succ = dict(next=target)
            return x.label
        inner = dict((k, leaving(v)) for k, v in conts.items())
        body = self.with_(s, i + 1, inner)
        e = self.new("enter", item.context_expr, s.lineno)
        e.succ = dict(next=body, exc=conts["exc"])
        return e.label

    def lines(self):
        return sorted(set(n.lineno for n in self.nodes.values()))

    def describe(self):
        return dict(function=self.name, file=self.func.__code__.co_filename, first_line=self.first_line,
                    last_line=self.last_line, sha256=self.sha, locations=len(self.nodes))


# ----------------------------------------------------------------------------
# symbolic state helpers
# ----------------------------------------------------------------------------

class State(object):
    """a dict of z3 terms with guarded assignment"""

    def __init__(self, vars_):
        self.v = dict(vars_)

    def copy(self):
        return State(self.v)

    def set(self, name, value, guard=None):
        old = self.v[name]
        if z3.is_bool(old) and isinstance(value, bool):
            value = z3.BoolVal(value)
        if z3.is_bv(old) and isinstance(value, int):
            value = z3.BitVecVal(value, old.size())
        self.v[name] = value if guard is None else z3.If(guard, value, old)

    def get(self, name):
        return self.v[name]


def bv(val, width):
    return z3.BitVecVal(val, width)


class BMC(object):
    """unrolls `steps` transitions of `nthreads` threads.

    model.init() -> dict name -> (sort, initial value term)
    model.step(S, tid) -> (enabled: Bool term, S': State)   # thread tid executes one location
    model.finished(S, tid) -> Bool term
    """

    def __init__(self, model, nthreads, steps, max_preemptions=None):
        self.model = model
        self.nthreads = nthreads
        self.steps = steps
        self.max_preemptions = max_preemptions
        self.constraints = []
        self.states = []
        self.sched = []
        self.deadlocks = []       # per step: nobody can move although some thread has not returned
        self.build()

    def build(self):
        m = self.model
        init = m.init()
        S = State(dict((k, v) for k, v in init.items()))
        self.states.append(S)
        tw = max(1, (self.nthreads - 1).bit_length())
        preempt = bv(0, 8)
        prev_sched = None
        for t in range(self.steps):
            s_t = z3.BitVec("sched_%d" % t, tw)
            self.sched.append(s_t)
            if self.nthreads < (1 << tw):
                self.constraints.append(z3.ULT(s_t, self.nthreads))
            cand = []
            for tid in range(self.nthreads):
                en, S2 = m.step(S, tid)
                en = z3.And(en, z3.Not(m.finished(S, tid)))
                cand.append((en, S2))
            any_enabled = z3.Or(*[en for en, _ in cand])
            all_fin = z3.And(*[m.finished(S, tid) for tid in range(self.nthreads)])
            self.deadlocks.append(z3.And(z3.Not(any_enabled), z3.Not(all_fin)))
            # the scheduled thread must be enabled; if nobody is enabled the system stutters
            self.constraints.append(z3.Implies(any_enabled, z3.Or(*[z3.And(s_t == tid, cand[tid][0]) for tid in range(self.nthreads)])))
            nv = {}
            for k in S.v:
                e = S.v[k]
                for tid in range(self.nthreads):
                    e = z3.If(z3.And(any_enabled, s_t == tid), cand[tid][1].v[k], e)
                # name every state variable per step: keeps the formula linear in size
                fresh = z3.Const("%s@%d" % (k, t + 1), S.v[k].sort())
                self.constraints.append(fresh == e)
                nv[k] = fresh
            if self.max_preemptions is not None and prev_sched is not None:
                # a preemption = switching away from a thread that is still enabled
                was_enabled = z3.Or(*[z3.And(prev_sched == tid, cand[tid][0]) for tid in range(self.nthreads)])
                p = z3.BitVec("preempt@%d" % (t + 1), 8)
                self.constraints.append(p == z3.If(z3.And(s_t != prev_sched, was_enabled), preempt + 1, preempt))
                preempt = p
                self.constraints.append(z3.ULE(preempt, self.max_preemptions))
            prev_sched = s_t
            S = State(nv)
            self.states.append(S)

    def _solver(self, timeout_ms):
        # pure bit-vector/Boolean problem: bit-blast and hand to the SAT core (measured: 51 s vs >200 s
        # for z3's default and QF_BV solvers on the re-entrant 2x1 instance)
        s = z3.Then("simplify", "solve-eqs", "bit-blast", "sat").solver()
        s.set("timeout", int(timeout_ms))
        return s

    def check(self, bad_of_state, at="any", timeout_ms=600000, extra=(), cubes=0, workers=16):
        """is a state satisfying bad_of_state(S) reachable (at any step / at the last step)?
        returns ('unsat', None) | ('sat', model) | ('unknown', None).  With cubes=c the first c
        schedule choices are enumerated and the cubes are solved in parallel processes."""
        if bad_of_state == "deadlock":
            goal = z3.Or(*self.deadlocks)
        else:
            goal = z3.Or(*[bad_of_state(S) for S in self.states]) if at == "any" else bad_of_state(self.states[-1])
        t0 = time.time()
        if not cubes:
            s = self._solver(timeout_ms)
            for c in self.constraints:
                s.add(c)
            for c in extra:
                s.add(c)
            s.add(goal)
            r = s.check()
            self.last_time = time.time() - t0
            if r == z3.sat:
                return "sat", DictModel.from_model(s.model(), self)
            if r == z3.unsat:
                return "unsat", None
            return "unknown", None
        import itertools
        import multiprocessing as mp
        import os
        import pickle
        combos = list(itertools.product(range(getattr(self, "nthreads_for_cubes", self.nthreads)), repeat=min(cubes, self.steps)))
        ctxm = mp.get_context("fork")
        results = []
        pending = list(combos)
        running = []
        verdict = "unsat"
        found = None

        def launch(combo):
            r, w = ctxm.Pipe(duplex=False)

            def work():
                try:
                    s = self._solver(timeout_ms)
                    for c in self.constraints:
                        s.add(c)
                    for c in extra:
                        s.add(c)
                    for i, tid in enumerate(combo):
                        s.add(self.sched[i] == tid)
                    s.add(goal)
                    res = s.check()
                    if res == z3.sat:
                        w.send_bytes(pickle.dumps(("sat", DictModel.from_model(s.model(), self).values)))
                    elif res == z3.unsat:
                        w.send_bytes(pickle.dumps(("unsat", None)))
                    else:
                        w.send_bytes(pickle.dumps(("unknown", None)))
                except BaseException as e:
                    try:
                        w.send_bytes(pickle.dumps(("unknown", repr(e))))
                    except Exception:
                        pass
                finally:
                    os._exit(0)
            p = ctxm.Process(target=work)
            p.start()
            w.close()
            return (p, r, combo)
        while pending or running:
            while pending and len(running) < workers:
                running.append(launch(pending.pop(0)))
            still = []
            for (p, r, combo) in running:
                if r.poll(0.05):
                    try:
                        res, vals = pickle.loads(r.recv_bytes())
                    except EOFError:
                        res, vals = "unknown", None
                    p.join()
                    if res == "sat" and found is None:
                        found = DictModel(vals)
                        verdict = "sat"
                        pending = []
                    elif res == "unknown" and verdict != "sat":
                        verdict = "unknown"
                else:
                    still.append((p, r, combo))
            running = still
            if found is not None:
                for (p, r, combo) in running:
                    p.terminate()
                    p.join()
                running = []
        self.last_time = time.time() - t0
        return verdict, found

    def schedule(self, model):
        return [model.eval(x, model_completion=True).as_long() for x in self.sched]

    def all_consts(self):
        out = list(self.sched)
        for S in self.states[1:]:
            out.extend(S.v.values())
        return out

    def trace(self, model, names):
        out = []
        for i, S in enumerate(self.states):
            row = {}
            for n in names:
                v = model.eval(S.v[n], model_completion=True)
                row[n] = z3.is_true(v) if z3.is_bool(v) else v.as_long()
            out.append(row)
        return out


class DictModel(object):
    """picklable stand-in for a z3 model: values of the schedule, inputs and per-step state variables"""

    def __init__(self, values):
        self.values = values

    @staticmethod
    def from_model(m, bmc):
        vals = {}
        for t in bmc.all_consts() + list(getattr(bmc.model, "inputs", [])):
            v = m.eval(t, model_completion=True)
            vals[str(t)] = z3.is_true(v) if z3.is_bool(v) else v.as_long()
        return DictModel(vals)

    def eval(self, t, model_completion=True):
        if z3.is_bv_value(t) or z3.is_true(t) or z3.is_false(t):
            return t
        v = self.values.get(str(t))
        if v is None:
            raise HarnessError("value of %s not recorded" % t)
        if isinstance(v, bool):
            return z3.BoolVal(v)
        return z3.BitVecVal(v, t.size())
