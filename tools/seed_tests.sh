#!/bin/bash
# confirms, one seed at a time (the suite uses fixed ports), that the repository's test-suite still passes with each seeded change
for d in /verif/seeded/*/; do
  name=$(basename $d)
  python3 - "$d" <<'PY' && continue
import json,sys
m=json.load(open(sys.argv[1]+'meta.json'))
sys.exit(0 if 'passed' in str(m['confirmed'].get('test_suite_with_change','')) else 1)
PY
  wt=/tmp/seedt_$name
  git -C /repo worktree remove --force $wt 2>/dev/null; rm -rf $wt
  git -C /repo worktree add -q --detach $wt HEAD || continue
  git -C $wt apply --whitespace=nowarn $d/patch.diff || { git -C /repo worktree remove --force $wt; continue; }
  res=$(cd $wt && PYTHONPATH=$wt timeout 1200 /venv/bin/python -m pytest -q -p no:cacheprovider --timeout=900 --continue-on-collection-errors tests/ 2>&1 | grep -E "^(FAILED|ERROR) |passed|failed" | grep -v "test_ssl\|test_teleportation\|test_win32pipes\|test_gdb" | tail -5 | tr '\n' ';')
  python3 - "$d" "$res" <<'PY'
import json,sys
p=sys.argv[1]+'meta.json'
m=json.load(open(p)); m['confirmed']['test_suite_with_change']=sys.argv[2]; json.dump(m, open(p,'w'), indent=1)
print(sys.argv[1], sys.argv[2])
PY
  git -C /repo worktree remove --force $wt; git -C /repo worktree prune
done
