"""C20 -- uploading and downloading files reproduces them byte for byte.

Encoded (re-read from /repo at every run): classic.upload/upload_file/upload_dir,
classic.download/download_file/download_dir.  Both file systems are in-memory
models; file contents are ropes of symbolic length, the chunk size is a solver
Int >= 1, the name filter is an uninterpreted predicate.
"""
import sys

import z3

from engine import core, values as V
from engine.core import ctx
from engine.harness import Run, Acc, par_explore
from engine.interp import Interp
from engine.rope import Rope, Slice
from engine.values import Sym, SymBool, SymInt


class FS(object):
    """model file system: path -> ('dir',) | ('file', rope) | ('other',)"""

    def __init__(self, name):
        self.name = name
        self.nodes = {}
        self.log = []
        self.open_files = {}

    def kind(self, p):
        n = self.nodes.get(p)
        return n[0] if n else None

    def listdir(self, p):
        if self.kind(p) != "dir":
            raise OSError("not a directory: %r" % p)
        pre = p.rstrip("/") + "/"
        return sorted(k[len(pre):] for k in self.nodes if k.startswith(pre) and "/" not in k[len(pre):])

    def makedirs(self, p):
        parts = p.split("/")
        for i in range(1, len(parts) + 1):
            q = "/".join(parts[:i])
            k = self.kind(q)
            if k is None:
                self.nodes[q] = ("dir",)
            elif k != "dir":
                raise OSError("exists and is not a directory: %r" % q)
        self.log.append(("makedirs", p))


class FakePath(object):
    def __init__(self, fs):
        self.fs = fs

    def isdir(self, p):
        return self.fs.kind(p) == "dir"

    def isfile(self, p):
        return self.fs.kind(p) == "file"

    def join(self, a, *more):
        for b in more:
            a = b if b.startswith("/") else a.rstrip("/") + "/" + b
        return a

    def relpath(self, p, start="."):
        p, start = p.rstrip("/"), start.rstrip("/")
        if p == start:
            return "."
        if p.startswith(start + "/"):
            return p[len(start) + 1:]
        raise ValueError("model file system: %r is not below %r" % (p, start))

    def basename(self, p):
        return p.rstrip("/").split("/")[-1]

    def dirname(self, p):
        return "/".join(p.rstrip("/").split("/")[:-1])

    def exists(self, p):
        return self.fs.kind(p) is not None

    def getsize(self, p):
        if self.fs.kind(p) != "file":
            raise OSError("no such file: %r" % p)
        return SymInt(self.fs.nodes[p][1].length_term())


class StatResult(object):
    def __init__(self, size):
        self.st_size = size


class FakeOS(object):
    curdir, pardir, sep = ".", "..", "/"

    def __init__(self, fs):
        self.fs = fs
        self.path = FakePath(fs)

    def fstat(self, fd):
        f = self.fs.open_files.get(fd)
        if f is None or f.closed:
            raise OSError(9, "Bad file descriptor")
        return StatResult(SymInt(self.fs.nodes[f.path][1].length_term()))

    def walk(self, top, topdown=True, onerror=None, followlinks=False):
        """os.walk over the model tree (top-down; the caller may prune `dirnames` in place)"""
        if self.fs.kind(top) != "dir":
            if onerror is not None:
                onerror(OSError("not a directory: %r" % top))
            return
        names = self.fs.listdir(top)
        dirs = [n for n in names if self.fs.kind(self.path.join(top, n)) == "dir"]
        files = [n for n in names if self.fs.kind(self.path.join(top, n)) != "dir"]
        if topdown:
            yield top, dirs, files
        for d in list(dirs):
            for x in self.walk(self.path.join(top, d), topdown, onerror, followlinks):
                yield x
        if not topdown:
            yield top, dirs, files

    def stat(self, p):
        if self.fs.kind(p) is None:
            raise OSError(2, "No such file or directory: %r" % p)
        if self.fs.kind(p) != "file":
            return StatResult(4096)
        return StatResult(SymInt(self.fs.nodes[p][1].length_term()))

    def listdir(self, p):
        return self.fs.listdir(p)

    def makedirs(self, p):
        return self.fs.makedirs(p)


class FakeFile(object):
    def __init__(self, fs, path, mode):
        self.fs, self.path, self.mode = fs, path, mode
        self.closed = False
        if "w" in mode:
            parent = "/".join(path.split("/")[:-1])
            if parent and fs.kind(parent) != "dir":
                raise IOError("no such directory: %r" % parent)
            fs.nodes[path] = ("file", Rope(()))
            self.pos = None
        else:
            if fs.kind(path) != "file":
                raise IOError("no such file: %r" % path)
            self.rest = fs.nodes[path][1]
        self.reads = 0
        self.fd = 10 + len(fs.open_files)
        fs.open_files[self.fd] = self

    def fileno(self):
        if self.closed:
            raise ValueError("I/O operation on closed file")
        return self.fd

    def __enter__(self):
        return self

    def __exit__(self, *a):
        self.closed = True
        return False

    def read(self, n=None):
        """regular-file contract: returns exactly min(n, remaining) bytes"""
        c = ctx()
        self.reads += 1
        if n is None:
            out, self.rest = self.rest, Rope(())
            return out.maybe_concrete()
        nt = V.term(n)
        if c.branch(nt >= self.rest.length_term(), "file-read-tail"):
            out, self.rest = self.rest, Rope(())
            return out.maybe_concrete()
        out, self.rest = self.rest.split_at(nt)
        return out.maybe_concrete()

    def write(self, data):
        cur = self.fs.nodes[self.path][1]
        self.fs.nodes[self.path] = ("file", Rope(cur.segs + Rope.of(data).segs))
        self.fs.log.append(("write", self.path))


def opener(fs):
    def _open(path, mode="r"):
        return FakeFile(fs, path, mode)
    return _open


class Builtins(object):
    def __init__(self, fs):
        self.open = opener(fs)


class Modules(object):
    def __init__(self, fs):
        self.os = FakeOS(fs)


class FakeConn(object):
    def __init__(self, fs):
        self.modules = Modules(fs)
        self.builtin = Builtins(fs)
        self.builtins = self.builtin


def setup(interp, local, remote):
    from rpyc.utils import classic
    interp.override_global(classic, "os", FakeOS(local))
    interp.override_global(classic, "open", opener(local))
    return FakeConn(remote)


REPLAY_HEAD = '''# replay of a counterexample found by /verif (property C20) on the real rpyc: real files, in-process "remote"
import sys, os, tempfile, shutil, builtins
sys.path.insert(0, __import__("os").environ.get("VERIF_REPO", "/repo"))
from rpyc.utils import classic
class Mods(object): os = os
class Conn(object):
    modules = Mods(); builtin = builtins; builtins = builtins
conn = Conn()
root = tempfile.mkdtemp()
def build(base, tree):
    for path, node in tree.items():
        p = os.path.join(base, path)
        if node[0] == "dir": os.makedirs(p, exist_ok=True)
        elif node[0] == "file":
            os.makedirs(os.path.dirname(p), exist_ok=True); open(p, "wb").write(node[1])
        else:
            os.makedirs(os.path.dirname(p), exist_ok=True); os.mkfifo(p)
def scan(base):
    out = {}
    for d, dirs, files in os.walk(base):
        rel = os.path.relpath(d, base)
        if rel != ".": out[rel] = ("dir",)
        for f in files:
            p = os.path.join(d, f); r = os.path.relpath(p, base)
            out[r] = ("file", open(p, "rb").read()) if os.path.isfile(p) else ("other",)
    return out
'''


def ob_file(run, interp, unwind):
    from rpyc.utils import classic

    def ob(o):
        o.symbolic = ["file length n: Int >= 0 (content uninterpreted)", "chunk_size: Int >= 1", "direction: upload / download"]
        o.bounds = {"read_loop_unwinding": unwind, "policy": "cut (paths needing more chunks are counted)"}
        o.stubs = [FakeFile.read.__doc__]
        acc = Acc()
        saved = interp.loop_bound

        def harness(c):
            d = c.choose(2, "direction")
            local, remote = FS("local"), FS("remote")
            conn = setup(interp, local, remote)
            n = c.fresh_int("n")
            c.assume(n >= 0)
            chunk = c.fresh_int("chunk")
            c.assume(chunk >= 1)
            data = Rope.blob("content", n, assume_nonneg=False)
            src, dst = (local, remote) if d == 0 else (remote, local)
            src.nodes["s"] = ("dir",)
            src.nodes["s/f"] = ("file", data)
            dst.nodes["d"] = ("dir",)
            c.notes.update(d=d, data=data, dst=dst, n=n, chunk=chunk)
            if d == 0:
                interp.call(classic.upload_file, (conn, "s/f", "d/f", V.wrap(chunk)))
            else:
                interp.call(classic.download_file, (conn, "s/f", "d/f", V.wrap(chunk)))
            return dst.nodes.get("d/f")

        def on_path(r):
            c = r.ctx
            if r.outcome == "abort":
                return
            if r.outcome == "bound":
                raise core.BoundExceeded(str(r.exc))
            acc.inc("dir%d" % c.notes["d"])
            bad = None
            model = None
            if r.outcome == "raise":
                bad = "copy raised %s: %s" % (type(r.exc).__name__, r.exc)
            elif r.value is None or r.value[0] != "file":
                bad = "destination file missing"
            else:
                eq = V.compare("==", r.value[1], c.notes["data"])
                if eq is False:
                    bad = "destination differs from the source"
                elif eq is not True:
                    ok, model = c.must_hold(V.truth_term(eq))
                    if not ok:
                        bad = "destination differs from the source"
            if len(o.samples) < 4:
                o.samples.append({"direction": ["upload", "download"][c.notes["d"]], "dest": str(r.value)[:100]})
            if bad and len(o.violations) < 2:
                m = c.small_model([], [c.notes["n"], c.notes["chunk"]], caps=(64, 100000))
                if m is None:
                    return
                nv = m.eval(c.notes["n"], model_completion=True).as_long()
                cv = m.eval(c.notes["chunk"], model_completion=True).as_long()
                run.replay(o, "file:%d" % c.notes["d"], "%s (n=%d, chunk=%d, %s)" % (bad, nv, cv, ["upload", "download"][c.notes["d"]]),
                           replay_file(c.notes["d"], nv, cv))

        interp.loop_bound = unwind
        interp.on_bound = "cut"
        interp.cuts = 0
        try:
            n_, incomplete = par_explore(run, o, harness, on_path, acc, split_depth=3, extra=lambda: interp.cuts)
        finally:
            interp.loop_bound = saved
            interp.on_bound = "raise"
        o.paths = dict(acc.counts, total=n_, cut_at_unwinding_bound=sum(o.extra_results or [0]))
        if incomplete:
            o.verdict = "inconclusive"
            o.detail = incomplete
        if not acc.counts.get("dir0") or not acc.counts.get("dir1"):
            raise core.HarnessError("reachability twin: %s" % acc.counts)
    return ob


def replay_file(d, n, chunk):
    return REPLAY_HEAD + '''
d, n, chunk = %d, %d, %d
bad = []
for nn in sorted(set([n, 0, 1, chunk - 1 if chunk > 1 else 0, chunk, chunk + 1, 2 * chunk, 3 * chunk + 1])):
    data = bytes((i * 7 + 3) %% 256 for i in range(nn))
    src = os.path.join(root, "s%%d" %% nn); dst = os.path.join(root, "d%%d" %% nn)
    open(src, "wb").write(data)
    try:
        (classic.upload_file if d == 0 else classic.download_file)(conn, src, dst, chunk)
        got = open(dst, "rb").read()
        if got != data: bad.append((nn, len(got)))
    except Exception as e:
        bad.append((nn, repr(e)))
shutil.rmtree(root)
print("sizes whose copy differs (chunk=%%d):" %% chunk, bad)
if bad:
    print("REPRODUCED"); sys.exit(1)
''' % (d, n, chunk)


# ---------------------------------------------------------------------------
SHAPES = ["file", "dir", "other", "absent"]


def gen_tree(c, fs, base, depth, names, sub=1):
    """populate fs under `base` with a symbolic tree; returns nothing"""
    for nm in names:
        k = SHAPES[c.choose(len(SHAPES), "entry")]
        p = base + "/" + nm
        if k == "absent":
            continue
        if k == "file":
            n = c.fresh_int("flen")
            c.assume(z3.And(n >= 0, n <= 64000))
            fs.nodes[p] = ("file", Rope.blob("content", n, assume_nonneg=False))
        elif k == "other":
            fs.nodes[p] = ("other",)
        else:
            fs.nodes[p] = ("dir",)
            if depth > 1:
                gen_tree(c, fs, p, depth - 1, names[:sub], sub)


def ob_tree(run, interp, depth, sub=1):
    from rpyc.utils import classic

    def ob(o):
        o.symbolic = ["source tree: each entry file/dir/other/absent (exhaustive), depth <= %d, fan-out <= 2" % depth,
                      "file lengths: Int in [0, 64000]", "filter: none, or an uninterpreted predicate on names",
                      "destination directory exists beforehand?", "direction: upload / download"]
        o.bounds = {"depth": depth, "fan_out": 2, "fan_out_below_top": sub, "chunk_size": "default (64000): files need <= 2 reads"}
        acc = Acc()

        def harness(c):
            d = c.choose(2, "direction")
            local, remote = FS("local"), FS("remote")
            conn = setup(interp, local, remote)
            src, dst = (local, remote) if d == 0 else (remote, local)
            top = SHAPES[c.choose(3, "top")]            # the path itself: file / dir / other
            if top == "dir":
                src.nodes["s"] = ("dir",)
                gen_tree(c, src, "s", depth, ["a", "b"], sub)
            elif top == "file":
                n = c.fresh_int("flen")
                c.assume(z3.And(n >= 0, n <= 64000))
                src.nodes["s"] = ("file", Rope.blob("content", n, assume_nonneg=False))
            else:
                src.nodes["s"] = ("other",)
            if top == "dir" and c.choose(2, "dest-exists") == 1:
                dst.nodes["d"] = ("dir",)
            use_filter = c.choose(2, "filter") == 1
            accept = {}

            def flt(name):
                if name not in accept:
                    accept[name] = c.fresh_bool("accept_" + name)
                return SymBool(accept[name])
            c.notes.update(d=d, src=src, dst=dst, top=top, accept=accept, use_filter=use_filter)
            f = classic.upload if d == 0 else classic.download
            interp.call(f, (conn, "s", "d", flt if use_filter else None))
            return True

        def on_path(r):
            c = r.ctx
            if r.outcome == "abort":
                return
            if r.outcome == "bound":
                raise core.BoundExceeded(str(r.exc))
            n = c.notes
            src, dst, top, accept = n["src"], n["dst"], n["top"], n["accept"]
            acc.inc(top)
            bad = None
            conds = []
            if top == "other":
                if not (r.outcome == "raise" and isinstance(r.exc, ValueError)):
                    bad = "a path that is neither file nor directory: expected ValueError, got %s" % (r.outcome,)
                elif any(k.startswith("d") for k in dst.nodes):
                    bad = "something was created for an invalid source"
            elif r.outcome == "raise":
                bad = "transfer raised %s: %s" % (type(r.exc).__name__, r.exc)
            else:
                # expected destination: every source entry all of whose path components (below the root) pass the filter
                def passes(rel):
                    terms = []
                    for comp in rel.split("/"):
                        if n["use_filter"]:
                            if comp not in accept:
                                return None      # the filter was never asked about it although it should have been
                            terms.append(accept[comp])
                    return z3.And(*terms) if terms else z3.BoolVal(True)
                for p, node in src.nodes.items():
                    rel = p[2:] if p != "s" else ""
                    q = "d" + ("/" + rel if rel else "")
                    if node[0] == "other":
                        if q in dst.nodes:
                            bad = "an entry that is neither file nor directory was copied: %s" % p
                        continue
                    # is the entry reachable (all ancestors accepted)?  unknown accept vars of skipped subtrees are fine
                    parent_terms = []
                    comps = rel.split("/") if rel else []
                    ok_known = True
                    for comp in comps:
                        if n["use_filter"]:
                            if comp in accept:
                                parent_terms.append(accept[comp])
                            else:
                                ok_known = False
                                break
                    want = z3.And(*parent_terms) if parent_terms else z3.BoolVal(True)
                    have = q in dst.nodes and dst.nodes[q][0] == node[0]
                    if not ok_known:
                        # an ancestor was rejected before this name was ever asked about: must be absent
                        if q in dst.nodes:
                            bad = "entry below a rejected directory was copied: %s" % p
                        continue
                    conds.append(z3.BoolVal(have) == want)
                    if have and node[0] == "file":
                        eq = V.compare("==", dst.nodes[q][1], node[1])
                        if eq is False:
                            conds.append(z3.Not(want))
                        elif eq is not True:
                            conds.append(z3.Implies(want, V.truth_term(eq)))
                for q in dst.nodes:
                    rel = q[2:] if q != "d" else ""
                    p = "s" + ("/" + rel if rel else "")
                    if p not in src.nodes:
                        bad = "destination has %s which is not in the source" % q
            model = None
            if bad is None and conds:
                ok, model = c.must_hold(z3.And(*conds))
                if not ok:
                    bad = "destination tree differs from the filtered source tree"
            if len(o.samples) < 5 and top == "dir":
                o.samples.append({"source": dict((k, v[0]) for k, v in src.nodes.items()), "dest": dict((k, v[0]) for k, v in dst.nodes.items()),
                                  "filter": sorted(accept)})
            if bad and len(o.violations) < 3:
                m = model or c.check_model()
                if m is None:
                    return
                tree = {}
                for p, node in src.nodes.items():
                    rel = p[2:] if p != "s" else "."
                    if node[0] == "file":
                        tree[rel] = ("file", node[1].concretize(m))
                    else:
                        tree[rel] = (node[0],)
                rej = sorted(k for k, v in accept.items() if not z3.is_true(m.eval(v, model_completion=True)))
                sig = "tree:%s" % bad.split()[0]
                if any(v["signature"] == sig for v in o.violations):
                    return
                run.replay(o, sig, "%s (source %s, rejected names %s, %s, dest existed: %s)" % (
                    bad, dict((k, v[0]) for k, v in tree.items()), rej if n["use_filter"] else None, ["upload", "download"][n["d"]], "d" in n["dst"].nodes),
                    replay_tree(n["d"], tree, rej if n["use_filter"] else None))

        n_, incomplete = par_explore(run, o, harness, on_path, acc, split_depth=4)
        o.paths = dict(acc.counts, total=n_)
        if incomplete:
            o.verdict = "inconclusive"
            o.detail = incomplete
        for k in ("file", "dir", "other"):
            if not acc.counts.get(k):
                raise core.HarnessError("reachability twin: %s" % acc.counts)
    return ob


def replay_tree(d, tree, rejected):
    return REPLAY_HEAD + '''
d, tree, rejected = %d, %r, %r
src = os.path.join(root, "s"); dst = os.path.join(root, "d")
top = tree.get(".", ("dir",))
if top[0] == "file": open(src, "wb").write(top[1])
elif top[0] == "other": os.mkfifo(src)
else:
    os.makedirs(src); build(src, dict((k, v) for k, v in tree.items() if k != "."))
flt = (lambda name: name not in rejected) if rejected is not None else None
f = classic.upload if d == 0 else classic.download
bad = []
try:
    f(conn, src, dst, flt)
    if top[0] == "other": bad.append("no ValueError for an invalid source")
except ValueError:
    if top[0] != "other": bad.append("ValueError")
except Exception as e:
    bad.append(repr(e))
if top[0] == "dir" and not bad:
    exp = {}
    for k, v in tree.items():
        if k == "." or v[0] == "other": continue
        if rejected is not None and any(c in rejected for c in k.split("/")): continue
        exp[k] = v
    got = scan(dst)
    if got != exp: bad.append(("dest", sorted(got), "expected", sorted(exp)))
elif top[0] == "file" and not bad:
    if open(dst, "rb").read() != top[1]: bad.append("file differs")
shutil.rmtree(root)
print(bad)
if bad:
    print("REPRODUCED"); sys.exit(1)
''' % (d, tree, rejected)


def translator_validation(run, interp):
    """model file system + interpreter vs CPython on real temporary files"""
    def ob(o):
        import os
        import tempfile
        import shutil
        import builtins
        from rpyc.utils import classic
        n = 0
        for size, chunk in ((0, 3), (1, 1), (6, 3), (7, 3), (5, 64000)):
            data = bytes(range(size))
            root = tempfile.mkdtemp()
            try:
                class Mods(object):
                    pass
                Mods.os = os

                class Conn(object):
                    modules = Mods()
                    builtin = builtins
                open(os.path.join(root, "s"), "wb").write(data)
                classic.upload_file(Conn(), os.path.join(root, "s"), os.path.join(root, "d"), chunk)
                real = open(os.path.join(root, "d"), "rb").read()
            finally:
                shutil.rmtree(root)
            local, remote = FS("l"), FS("r")
            conn = setup(interp, local, remote)
            local.nodes["s"] = ("file", Rope.lit(data))
            core.run_concrete(lambda: interp.call(classic.upload_file, (conn, "s", "d", chunk)))
            got = remote.nodes["d"][1]
            got = got.to_bytes() if isinstance(got, Rope) else got
            if got != real:
                raise core.HarnessError("translator validation: upload_file(size=%d, chunk=%d)" % (size, chunk))
            n += 1
        o.validated = n
        o.samples.append({"concrete_cases_agreeing_with_cpython": n})
    return ob


def main():
    run = Run("C20", level="other")
    interp = Interp()
    thorough = run.tier == "thorough"
    run.assumptions = ["regular-file contract: read(n) returns exactly min(n, remaining) bytes; write appends",
                       "os.listdir/isdir/isfile/join/makedirs on an in-memory tree for both sides (remote I/O itself is C02/C05)",
                       "symlinks, permissions and deeper/wider trees are outside the claim"]
    run.obligation("T0_translator", "interpreter + model file system == CPython + real files on upload_file", translator_validation(run, interp))
    run.obligation("O1_file_chunks", "upload_file/download_file: destination == source for every size and chunk size",
                   ob_file(run, interp, 10 if thorough else 4))
    run.obligation("O2_trees", "upload/download of a tree: destination == filtered source, same relative names",
                   ob_tree(run, interp, 2))
    if thorough:
        run.obligation("O2_trees_deep", "the same for trees of depth 3", ob_tree(run, interp, 3))
        run.obligation("O2_trees_wide", "the same for depth 2 with two entries in every directory", ob_tree(run, interp, 2, 2))
    run.note_encoded(interp)
    sys.exit(run.finish())


if __name__ == "__main__":
    main()
