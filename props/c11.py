"""C11 -- every way a connection can end leaves both sides clean, once, and nobody hanging.

O1  close()/_cleanup()/_handle_close from an open state with symbolic outcomes of the
    before_closed hook and of sending the close request (ok / EOFError / other error,
    close_catchall a solver Bool): closed, disconnect hook exactly once, tables
    released, channel closed; closing again is a no-op.
O2  fault position: for three workloads (sync request, async request collected later,
    nested callback) the f-th transport operation (poll/recv/send, f exhaustive)
    fails with EOFError: nothing hangs (virtual time), no request returns a value the
    peer did not send, a failure met while serving closes the connection and runs the
    hook once, later requests fail with EOFError.
O3  both sides closing in either order on two real connections.
"""
import sys

import z3

from engine import core, values as V
from engine.core import ctx
from engine.harness import Run, Acc, par_explore
from engine.interp import Interp
from engine.values import Sym, SymBool, SymInt
from props import l2


class CountingService(object):
    """service spy: counts the disconnect hook"""

    def __init__(self):
        self.disconnects = 0
        self.connects = 0

    def on_connect(self, conn):
        self.connects += 1

    def on_disconnect(self, conn):
        self.disconnects += 1


class FaultyChannel(l2.ListChannel):
    """frame-list channel whose f-th operation fails with EOFError (and every later one, like a closed stream)"""

    def __init__(self, interp, clock, peer, fail_at):
        l2.ListChannel.__init__(self, interp, clock, peer)
        self.fail_at = fail_at
        self.n = 0
        self.dead = False
        self.failed_in = None

    def _tick(self, kind):
        if self.dead:
            raise EOFError("stream has been closed")
        if self.fail_at is not None and self.n == self.fail_at:
            self.dead = True
            self.failed_in = kind
            raise EOFError("injected failure in %s" % kind)
        self.n += 1

    def send(self, data):
        self._tick("send")
        return l2.ListChannel.send(self, data)

    def poll(self, timeout):
        self._tick("poll")
        return l2.ListChannel.poll(self, timeout)

    def recv(self):
        self._tick("recv")
        return l2.ListChannel.recv(self)

    def close(self):
        self.closed = True
        self.dead = True


REPLAY_HEAD = '''# replay of a counterexample found by /verif (property C11) on the real rpyc
import sys
sys.path.insert(0, __import__("os").environ.get("VERIF_REPO", "/repo")); sys.path.insert(0, "/verif")
import rpyc.lib
from rpyc.core.protocol import Connection
from rpyc.core import consts, brine
class Svc(object):
    def __init__(self): self.disconnects = 0
    def on_connect(self, c): pass
    def on_disconnect(self, c): self.disconnects += 1
class Clock(object):
    now = 1000.0
    def time(self): return self.now
    def sleep(self, d): self.now += d
clock = Clock(); rpyc.lib.time = clock
'''


def ob_close(run, interp):
    from rpyc.core.protocol import Connection

    HOOKS = ["none", "ok", "raises", "reenters"]
    SENDS = ["ok", "eof", "oserror"]
    VIA = ["close", "handle_close", "serve-eof"]

    def ob(o):
        o.symbolic = ["before_closed hook: %s" % HOOKS, "sending the close request: %s" % SENDS, "close_catchall: Bool",
                      "how the end is initiated: %s" % VIA, "objects lent in both directions beforehand"]
        acc = Acc()

        def harness(c):
            l2.install_identity_codec(interp)
            clk = l2.install_clock(interp)
            svc = CountingService()
            hook = HOOKS[c.choose(len(HOOKS), "hook")]
            send = SENDS[c.choose(len(SENDS), "send")]
            via = VIA[c.choose(len(VIA), "via")]
            catchall = SymBool(c.fresh_bool("close_catchall"))
            chan = l2.ListChannel(interp, clk)
            hook_calls = []
            cfg = dict(close_catchall=catchall)
            conn_box = []

            def before_closed(root):
                hook_calls.append(1)
                if hook == "raises":
                    raise RuntimeError("hook failed")
                if hook == "reenters":
                    interp.call(Connection.close, (conn_box[0],))
            if hook != "none":
                cfg["before_closed"] = before_closed
            conn = l2.make_conn(chan, cfg, svc)
            conn_box.append(conn)
            conn._remote_root = object()          # `root` is only handed to the hook
            lent = object()
            conn._local_objects.add(("x.Lent", 1, 2), lent)
            proxy = conn._netref_factory(("builtins.list", 3, 4))
            conn._proxy_cache[("builtins.list", 3, 4)] = proxy
            orig_send = chan.send

            def failing_send(data):
                if chan.closed:
                    raise EOFError("stream has been closed")
                if send == "eof":
                    raise EOFError("peer gone")
                if send == "oserror":
                    raise OSError("weird")
                return orig_send(data)
            chan.send = failing_send
            c.notes.update(conn=conn, svc=svc, chan=chan, hook=hook, send=send, via=via, catchall=catchall, hook_calls=hook_calls)
            if via == "close":
                out = interp.call(Connection.close, (conn,))
            elif via == "handle_close":
                out = interp.call(Connection._handle_close, (conn,))
            else:
                def eof_poll(timeout):
                    raise EOFError("connection closed by peer")
                chan.poll = eof_poll
                try:
                    out = interp.call(Connection.serve, (conn, 1))
                except EOFError:
                    out = "EOFError"
            c.notes["first_done"] = True
            c.notes["disc_after_first"] = svc.disconnects
            # closing again must be a no-op
            interp.call(Connection.close, (conn,))
            return out

        def on_path(r):
            c = r.ctx
            if r.outcome == "abort" or "via" not in c.notes:
                return
            n = c.notes
            conn, svc, chan = n["conn"], n["svc"], n["chan"]
            acc.inc("via:" + n["via"])
            bad = None
            conds = []
            if r.outcome == "raise":
                # only a failing hook / a non-EOF send failure may propagate, and only when close_catchall is off
                may = (n["hook"] == "raises" or n["send"] == "oserror") and n["via"] in ("close", "serve-eof") and not n.get("first_done")
                if not may or not isinstance(r.exc, (RuntimeError, OSError)):
                    bad = "%s raised %s: %s" % (n["via"], type(r.exc).__name__, r.exc)
                else:
                    conds.append(z3.Not(n["catchall"].e))
            if conn.closed is not True:
                bad = bad or "the connection does not report closed"
            if svc.disconnects != 1:
                bad = bad or "the disconnect hook ran %d times" % svc.disconnects
            if conn._local_objects._dict or len(conn._proxy_cache._dict) or conn._request_callbacks:
                bad = bad or "tables not released: %d local objects, %d proxies, %d callbacks" % (
                    len(conn._local_objects._dict), len(conn._proxy_cache._dict), len(conn._request_callbacks))
            if not chan.closed:
                bad = bad or "the channel was not closed"
            if len(n["hook_calls"]) > 1:
                bad = bad or "before_closed ran %d times" % len(n["hook_calls"])
            model = None
            if bad is None and conds:
                ok, model = c.must_hold(z3.And(*conds))
                if not ok:
                    bad = "an exception escaped close() although close_catchall is set"
            if len(o.samples) < 5:
                o.samples.append({"via": n["via"], "hook": n["hook"], "send": n["send"], "outcome": r.outcome, "disconnects": svc.disconnects})
            if bad and len(o.violations) < 3:
                m = model or c.check_model()
                ca = z3.is_true(m.eval(n["catchall"].e, model_completion=True)) if m is not None else False
                sig = "close:%s:%s:%s" % (n["via"], n["hook"], n["send"])
                run.replay(o, sig, "%s (via %s, hook %s, send %s, close_catchall=%s)" % (bad, n["via"], n["hook"], n["send"], ca),
                           replay_close(n["via"], n["hook"], n["send"], ca))

        n_, incomplete = par_explore(run, o, harness, on_path, acc, split_depth=4)
        o.paths = dict(acc.counts, total=n_)
        if incomplete:
            o.verdict = "inconclusive"
            o.detail = incomplete
        for v in VIA:
            if not acc.counts.get("via:" + v):
                raise core.HarnessError("reachability twin: %s" % acc.counts)
    return ob


def replay_close(via, hook, send, catchall):
    return REPLAY_HEAD + '''
via, hook, send, catchall = %r, %r, %r, %r
class Chan(object):
    def __init__(self): self.closed = False; self.frames = []
    def send(self, d):
        if send == "eof": raise EOFError("gone")
        if send == "oserror": raise OSError("weird")
        self.frames.append(d)
    def poll(self, t):
        if via == "serve-eof": raise EOFError("closed by peer")
        return False
    def recv(self): raise EOFError()
    def close(self): self.closed = True
svc = Svc(); ch = Chan(); calls = []
def before(root):
    calls.append(1)
    if hook == "raises": raise RuntimeError("hook failed")
    if hook == "reenters": conn.close()
cfg = dict(close_catchall=catchall)
if hook != "none": cfg["before_closed"] = before
conn = Connection(svc, ch, cfg)
conn._remote_root = object()
conn._local_objects.add(("x", 1, 2), object())
escaped = None
try:
    if via == "close": conn.close()
    elif via == "handle_close": conn._handle_close()
    else:
        try: conn.serve(1)
        except EOFError: pass
except Exception as e:
    escaped = e
try:
    conn.close()
except Exception as e:
    escaped = escaped or e
bad = []
if escaped is not None and (catchall or not isinstance(escaped, (RuntimeError, OSError))): bad.append("escaped %%r" %% (escaped,))
if not conn.closed: bad.append("not closed")
if svc.disconnects != 1: bad.append("disconnect hook ran %%d times" %% svc.disconnects)
if conn._local_objects._dict: bad.append("local objects kept")
if not ch.closed: bad.append("channel open")
if len(calls) > 1: bad.append("before_closed ran %%d times" %% len(calls))
print(bad)
if bad:
    print("REPRODUCED"); sys.exit(1)
''' % (via, hook, send, catchall)


# ---------------------------------------------------------------------------
class ScriptPeer(object):
    """frame-level peer for the fault workloads: answers PING with the data; for the nested workload it first calls
    back (a PING request of its own) and answers only after the real side has replied to that"""

    def __init__(self, nested):
        self.nested = nested
        self.chan = None
        self.pending = None
        self.sent_values = []
        self.got_callback_reply = False

    def on_frame(self, frame):
        from rpyc.core import consts
        if not isinstance(frame, l2.Frame):
            return          # a finalizer of an abandoned connection saying goodbye natively: not part of any path
        kind, seq, args = frame.obj
        if kind == consts.MSG_REQUEST:
            handler, boxed = args
            if handler == consts.HANDLE_CLOSE:
                return
            if handler != consts.HANDLE_PING:
                return
            value = ("pong", seq)
            if self.nested and self.pending is None:
                self.pending = (seq, value)
                self.chan.inbox.append(l2.Frame((consts.MSG_REQUEST, 900, (consts.HANDLE_PING, (consts.LABEL_TUPLE, ((consts.LABEL_VALUE, "cb"),))))))
            else:
                self.sent_values.append(value)
                self.chan.inbox.append(l2.Frame((consts.MSG_REPLY, seq, (consts.LABEL_VALUE, value))))
        elif kind == consts.MSG_REPLY and seq == 900 and self.pending is not None:
            self.got_callback_reply = True
            s, value = self.pending
            self.pending = None
            self.sent_values.append(value)
            self.chan.inbox.append(l2.Frame((consts.MSG_REPLY, s, (consts.LABEL_VALUE, value))))


WORKLOADS = ["sync", "async", "nested"]


def ob_faults(run, interp, max_ops):
    from rpyc.core.protocol import Connection
    from rpyc.core.async_ import AsyncResult, AsyncResultTimeout
    from rpyc.core import consts

    def ob(o):
        o.symbolic = ["workload: %s" % WORKLOADS, "index f of the failing transport operation: 0..%d or none (exhaustive)" % max_ops,
                      "virtual clock (waits end by their timeout instead of hanging)"]
        o.bounds = {"transport_operations": max_ops}
        acc = Acc()

        def harness(c):
            l2.install_identity_codec(interp)
            clk = l2.install_clock(interp)
            w = WORKLOADS[c.choose(len(WORKLOADS), "workload")]
            f = c.choose(max_ops + 2, "fail_at")
            fail_at = None if f == max_ops + 1 else f
            peer = ScriptPeer(w == "nested")
            chan = FaultyChannel(interp, clk, peer, fail_at)
            peer.chan = chan
            svc = CountingService()
            conn = l2.make_conn(chan, dict(sync_request_timeout=5), svc)
            c.notes.update(conn=conn, svc=svc, chan=chan, peer=peer, w=w, fail_at=fail_at)
            outcomes = []

            def attempt(fn):
                try:
                    outcomes.append(("value", fn()))
                except EOFError:
                    outcomes.append(("EOFError", None))
                except AsyncResultTimeout:
                    outcomes.append(("timeout", None))
            if w in ("sync", "nested"):
                attempt(lambda: interp.call(Connection.sync_request, (conn, consts.HANDLE_PING, "x")))
            else:
                res = []
                attempt(lambda: res.append(interp.call(Connection.async_request, (conn, consts.HANDLE_PING, "x"), dict(timeout=5))) or "issued")
                if res:
                    attempt(lambda: interp.getattr(res[0], "value"))
            # a request issued afterwards
            attempt(lambda: interp.call(Connection.sync_request, (conn, consts.HANDLE_PING, "y")))
            c.notes["outcomes"] = outcomes
            return outcomes

        def on_path(r):
            c = r.ctx
            if r.outcome == "abort" or "w" not in c.notes:
                return
            n = c.notes
            conn, svc, chan, peer = n["conn"], n["svc"], n["chan"], n["peer"]
            acc.inc("w:%s" % n["w"])
            acc.inc("failed_in:%s" % chan.failed_in)
            bad = None
            if r.outcome != "return":
                bad = "the workload raised %s: %s" % (type(r.exc).__name__ if r.exc else r.outcome, r.exc)
            else:
                for (k, v) in r.value:
                    if k == "value" and v != "issued" and v not in peer.sent_values:
                        bad = "a request returned %r, which the peer never sent" % (v,)
                if chan.failed_in is None:
                    if any(k != "value" for k, v in r.value):
                        bad = bad or "without any fault a request ended with %s" % ([k for k, v in r.value],)
                else:
                    # after the fault nothing may succeed any more unless it had completed before
                    last = r.value[-1]
                    if last[0] == "value":
                        bad = bad or "a request issued after the failure returned a value"
                    if chan.failed_in in ("poll", "recv"):
                        # the failure was met while serving: the connection must be closed, hook once
                        if conn.closed is not True:
                            bad = bad or "failure while serving but the connection is not closed"
                        elif svc.disconnects != 1:
                            bad = bad or "disconnect hook ran %d times after a failure while serving" % svc.disconnects
                if svc.disconnects > 1:
                    bad = bad or "disconnect hook ran %d times" % svc.disconnects
            if len(o.samples) < 6 and r.outcome == "return":
                o.samples.append({"workload": n["w"], "fail_at": n["fail_at"], "failed_in": chan.failed_in, "outcomes": [k for k, v in r.value]})
            if bad and len(o.violations) < 3:
                sig = "fault:%s:%s" % (n["w"], chan.failed_in)
                if any(v["signature"] == sig for v in o.violations):
                    return
                run.replay(o, sig, "%s (workload %s, failing operation #%s: %s)" % (bad, n["w"], n["fail_at"], chan.failed_in), replay_fault(n["w"], n["fail_at"]))
            l2.retire(conn)

        interp.on_bound = "cut"
        try:
            n_, incomplete = par_explore(run, o, harness, on_path, acc, split_depth=3)
        finally:
            interp.on_bound = "raise"
        o.paths = dict(acc.counts, total=n_)
        if incomplete:
            o.verdict = "inconclusive"
            o.detail = incomplete
        for k in ("failed_in:send", "failed_in:poll", "failed_in:recv", "failed_in:None"):
            if not acc.counts.get(k):
                raise core.HarnessError("reachability twin: %s" % acc.counts)
    return ob


def replay_fault(w, fail_at):
    return REPLAY_HEAD + '''
from rpyc.core.async_ import AsyncResultTimeout
w, fail_at = %r, %r
class Chan(object):
    def __init__(self):
        self.inbox = []; self.n = 0; self.dead = False; self.failed_in = None; self.closed = False; self.pending = None; self.sent = []
    def _tick(self, kind):
        if self.dead: raise EOFError("closed")
        if fail_at is not None and self.n == fail_at:
            self.dead = True; self.failed_in = kind; raise EOFError("injected")
        self.n += 1
    def send(self, data):
        self._tick("send")
        kind, seq, args = brine.load(data)
        if kind == consts.MSG_REQUEST and args[0] == consts.HANDLE_PING:
            value = ("pong", seq)
            if w == "nested" and self.pending is None and seq != 900:
                self.pending = (seq, value)
                self.inbox.append(brine.dump((consts.MSG_REQUEST, 900, (consts.HANDLE_PING, (consts.LABEL_TUPLE, ((consts.LABEL_VALUE, "cb"),))))))
            else:
                self.sent.append(value); self.inbox.append(brine.dump((consts.MSG_REPLY, seq, (consts.LABEL_VALUE, value))))
        elif kind == consts.MSG_REPLY and seq == 900 and self.pending:
            s, value = self.pending; self.pending = None; self.sent.append(value)
            self.inbox.append(brine.dump((consts.MSG_REPLY, s, (consts.LABEL_VALUE, value))))
    def poll(self, timeout):
        self._tick("poll")
        if self.inbox: return True
        left = rpyc.lib.Timeout(timeout).timeleft()
        clock.now += left if left else 0
        return False
    def recv(self):
        self._tick("recv"); return self.inbox.pop(0)
    def close(self): self.closed = True; self.dead = True
svc = Svc(); ch = Chan()
conn = Connection(svc, ch, dict(sync_request_timeout=5))
out = []
def attempt(fn):
    try: out.append(("value", fn()))
    except EOFError: out.append(("EOFError", None))
    except AsyncResultTimeout: out.append(("timeout", None))
if w in ("sync", "nested"): attempt(lambda: conn.sync_request(consts.HANDLE_PING, "x"))
else:
    res = []
    attempt(lambda: res.append(conn.async_request(consts.HANDLE_PING, "x", timeout=5)) or "issued")
    if res: attempt(lambda: res[0].value)
attempt(lambda: conn.sync_request(consts.HANDLE_PING, "y"))
bad = []
for k, v in out:
    if k == "value" and v != "issued" and v not in ch.sent: bad.append("returned %%r never sent" %% (v,))
if ch.failed_in is None and any(k != "value" for k, v in out): bad.append("failed without a fault: %%r" %% out)
if ch.failed_in is not None:
    if out[-1][0] == "value": bad.append("request after the failure succeeded")
    if ch.failed_in in ("poll", "recv") and (not conn.closed or svc.disconnects != 1): bad.append("closed=%%r hook=%%d after failing %%s" %% (conn.closed, svc.disconnects, ch.failed_in))
if svc.disconnects > 1: bad.append("hook ran %%d times" %% svc.disconnects)
conn._closed = True
print(out, ch.failed_in, bad)
if bad:
    print("REPRODUCED"); sys.exit(1)
''' % (w, fail_at)


BOTH = '''
import sys, time
sys.path.insert(0, __import__("os").environ.get("VERIF_REPO", "/repo")); sys.path.insert(0, "/verif")
from props import pairs
import rpyc
class Svc(rpyc.Service):
    def __init__(self): self.disconnects = 0
    def on_disconnect(self, c): self.disconnects += 1
    def exposed_echo(self, x): return x
bad = []
for order in ("a", "b", "ab", "ba", "aa", "a-abrupt", "b-abrupt"):
    sa, sb = Svc(), Svc()
    pair = pairs.Pair(service_a=sa, service_b=sb)
    try:
        if pair.a.root.echo(5) != 5: bad.append((order, "echo"))
        if order == "a-abrupt":
            pair.a._channel.close()
            try:
                pair.a.root.echo(1); bad.append((order, "call on a dead transport returned"))
            except EOFError: pass
        elif order == "b-abrupt":
            pair.b._channel.close()
        else:
            for side in order:
                (pair.a if side == "a" else pair.b).close()
        pair.thread.join(5)
        if order in ("b", "b-abrupt", "ba"):
            try:
                pair.a.root.echo(1); bad.append((order, "call after the peer closed returned"))
            except EOFError: pass
        pair.a.close(); pair.b.close()
        if not (pair.a.closed and pair.b.closed): bad.append((order, "not closed", pair.a.closed, pair.b.closed))
        if sa.disconnects != 1 or sb.disconnects != 1: bad.append((order, "disconnect hooks", sa.disconnects, sb.disconnects))
        if pair.thread.is_alive(): bad.append((order, "server thread still running"))
    except Exception as e:
        bad.append((order, "raised %r" % (e,)))
print(bad)
if bad:
    print("REPRODUCED"); sys.exit(1)
'''


def ob_both_sides(run):
    def ob(o):
        import subprocess
        import os
        o.symbolic = ["order of the two sides' close calls / abrupt transport loss: 7 scenarios (direct execution on two real connections)"]
        p = subprocess.run(["/venv/bin/python", "-c", BOTH], capture_output=True, text=True, timeout=300,
                           env=dict(os.environ, PYTHONPATH=os.environ.get("VERIF_REPO", "/repo")))
        o.samples.append({"output": (p.stdout + p.stderr)[-300:]})
        if "REPRODUCED" in p.stdout:
            run.replay(o, "both-sides", "closing both sides: %s" % p.stdout[-300:], BOTH)
        elif p.returncode != 0:
            raise core.HarnessError("driver failed: %s" % (p.stdout + p.stderr)[-400:])
    return ob



# ---------------------------------------------------------------------------
def ob_serving_side(run, interp, max_ops):
    """the side that serves (serve_all) while the transport fails at any operation -- receiving a request, sending a
    reply (plain or exception), or never: afterwards it is closed, its hook ran once, what it lent is released"""
    from rpyc.core.protocol import Connection
    from rpyc.core import consts

    def ob(o):
        o.symbolic = ["index f of the failing transport operation: 0..%d or none (exhaustive)" % max_ops,
                      "script of the peer: GETROOT (the reply lends the service), PING, a request that fails in its handler, then end-of-stream / silence until the fault"]
        o.bounds = {"transport_operations": max_ops}
        acc = Acc()

        def harness(c):
            l2.install_identity_codec(interp)
            clk = l2.install_clock(interp)
            f = c.choose(max_ops + 2, "fail_at")
            fail_at = None if f == max_ops + 1 else f
            chan = FaultyChannel(interp, clk, None, fail_at)
            svc = CountingService()
            conn = l2.make_conn(chan, {}, svc)
            B = (consts.LABEL_TUPLE, ())
            chan.inbox.append(l2.Frame((consts.MSG_REQUEST, 1, (consts.HANDLE_GETROOT, B))))
            chan.inbox.append(l2.Frame((consts.MSG_REQUEST, 2, (consts.HANDLE_PING, (consts.LABEL_TUPLE, ((consts.LABEL_VALUE, "x"),))))))
            chan.inbox.append(l2.Frame((consts.MSG_REQUEST, 3, (9999, B))))            # unknown handler: an exception reply
            # once the script is exhausted the peer is gone: end-of-stream at the next poll
            real_poll = chan.poll

            def poll(timeout):
                if not chan.inbox and not chan.dead:
                    chan._tick("poll")
                    chan.dead = True
                    if chan.failed_in is None:
                        chan.failed_in = "peer-gone"
                    raise EOFError("connection closed by peer")
                return real_poll(timeout)
            chan.poll = poll
            c.notes.update(conn=conn, svc=svc, chan=chan, fail_at=fail_at)
            try:
                interp.call(Connection.serve_all, (conn,))
                return "returned"
            except EOFError:
                return "EOFError"

        def on_path(r):
            c = r.ctx
            if r.outcome == "abort" or "conn" not in c.notes:
                return
            n = c.notes
            conn, svc, chan = n["conn"], n["svc"], n["chan"]
            acc.inc("failed_in:%s" % chan.failed_in)
            bad = []
            if r.outcome != "return":
                bad.append("serve_all raised %s: %s" % (type(r.exc).__name__ if r.exc else r.outcome, r.exc))
            else:
                if conn.closed is not True:
                    bad.append("the serving side is not closed")
                if svc.disconnects != 1:
                    bad.append("disconnect hook ran %d times" % svc.disconnects)
                if conn._local_objects._dict:
                    bad.append("%d lent object(s) not released" % len(conn._local_objects._dict))
                if not chan.closed:
                    bad.append("channel not closed")
            if len(o.samples) < 6:
                o.samples.append({"fail_at": n["fail_at"], "failed_in": chan.failed_in, "outcome": r.value if r.outcome == "return" else r.outcome, "frames_sent": len(chan.out)})
            if bad and len(o.violations) < 3:
                sig = "serving:%s" % chan.failed_in
                if any(v["signature"] == sig for v in o.violations):
                    return
                run.replay(o, sig, "%s (serve_all; transport operation #%s fails: %s)" % ("; ".join(bad), n["fail_at"], chan.failed_in), REPLAY_HEAD + '''
fail_at = %r
class Chan(object):
    def __init__(self):
        B = (consts.LABEL_TUPLE, ())
        self.inbox = [brine.dump((consts.MSG_REQUEST, 1, (consts.HANDLE_GETROOT, B))),
                      brine.dump((consts.MSG_REQUEST, 2, (consts.HANDLE_PING, (consts.LABEL_TUPLE, ((consts.LABEL_VALUE, "x"),))))),
                      brine.dump((consts.MSG_REQUEST, 3, (9999, B)))]
        self.n = 0; self.dead = False; self.failed_in = None; self.closed = False; self.sent = []
    def _tick(self, kind):
        if self.dead: raise EOFError("closed")
        if fail_at is not None and self.n == fail_at:
            self.dead = True; self.failed_in = kind; raise EOFError("injected")
        self.n += 1
    def send(self, d): self._tick("send"); self.sent.append(bytes(d))
    def poll(self, timeout):
        self._tick("poll")
        if not self.inbox:
            self.dead = True; self.failed_in = self.failed_in or "peer-gone"; raise EOFError("connection closed by peer")
        return True
    def recv(self): self._tick("recv"); return self.inbox.pop(0)
    def close(self): self.closed = True; self.dead = True
svc = Svc(); ch = Chan()
conn = Connection(svc, ch, {})
try:
    conn.serve_all(); out = "returned"
except EOFError:
    out = "EOFError"
bad = []
if not conn.closed: bad.append("the serving side is not closed")
if svc.disconnects != 1: bad.append("disconnect hook ran %%d times" %% svc.disconnects)
if conn._local_objects._dict: bad.append("%%d lent object(s) not released" %% len(conn._local_objects._dict))
if not ch.closed: bad.append("channel not closed")
print(out, ch.failed_in, bad)
if bad:
    print("REPRODUCED"); sys.exit(1)
''' % (n["fail_at"],))
            l2.retire(conn)

        n_, incomplete = par_explore(run, o, harness, on_path, acc, split_depth=2)
        o.paths = dict(acc.counts, total=n_)
        if incomplete:
            o.verdict = "inconclusive"
            o.detail = incomplete
        for k in ("failed_in:send", "failed_in:poll", "failed_in:recv", "failed_in:peer-gone"):
            if not acc.counts.get(k):
                raise core.HarnessError("reachability twin: %s never reached (%s)" % (k, acc.counts))
    return ob


def main():
    run = Run("C11", level="other")
    interp = Interp()
    thorough = run.tier == "thorough"
    run.assumptions = ["a failure in the middle of a packet is reduced to a failing transport operation by the stream contract of C05 (EOFError + closed stream)",
                       "waits are run in virtual time; `closed` observed by a third thread while close() is still running is outside the claim "
                       "(the flag is set before the disconnect hook runs)",
                       "identity codec / frame list stand in for brine / Channel (C04/C05)"]
    run.obligation("O1_close_paths", "every way of ending (close, told to close, EOF while serving) x hook/send outcomes: closed, hook once, tables released, idempotent",
                   ob_close(run, interp))
    run.obligation("O2_fault_positions", "EOFError at every transport operation of three workloads: no hang, no invented value, closed + hook once when met while serving",
                   ob_faults(run, interp, 16 if thorough else 12))
    run.obligation("O4_serving_side", "serve_all() with EOFError at every transport operation (receiving a request, sending a plain or exception reply, peer gone): closed, hook once, lent objects released",
                   ob_serving_side(run, interp, 16 if thorough else 12))
    run.obligation("O3_both_sides", "both sides closing in either order / abrupt loss on two real connections", ob_both_sides(run))
    run.note_encoded(interp)
    sys.exit(run.finish())


if __name__ == "__main__":
    main()
