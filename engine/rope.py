"""Ropes: symbolic byte strings.

A rope is a sequence of segments:
  Lit(bytes)            concrete bytes
  Field(width, value)   big-endian `width`-byte image of the Int term `value`
                        (0 <= value < 256**width holds by construction);
                        splittable into its bytes (value div 256^k) mod 256
  Blob slice            bytes [off, off+len) of a base blob; a base blob has a
                        symbolic total length, an uninterpreted content function
                        and optionally an *origin* (utf-8 image of a text, zlib
                        image of a rope, IEEE image of a float ...) used by the
                        inverse operation
`len`, concatenation, slicing at symbolic offsets and stream reads are linear
integer case splits on segment boundaries (decided by the solver, forking the
path when both cases are feasible).
"""
import itertools

import z3

from . import values as V
from .core import ctx, Unsupported
from .values import Sym, SymInt

_blob_ids = itertools.count()
ITER_INTERP = [None]      # the interpreter whose loop bound governs iteration over ropes


def _t(x):
    """Int term of a python int / SymInt / z3 term"""
    if isinstance(x, int) and not isinstance(x, bool):
        return z3.IntVal(x)
    if isinstance(x, SymInt):
        return x.e
    if isinstance(x, z3.ExprRef):
        return x
    raise Unsupported("not an integer length: %r" % (x,))


def _simp(e):
    return z3.simplify(e)


def _const(e):
    e = _simp(e)
    if z3.is_int_value(e):
        return e.as_long()
    return None


class Base(object):
    """A base blob: identity + total length + content function + origin."""
    __slots__ = ("name", "length", "cont", "origin")

    def __init__(self, hint, length, origin=None):
        c = ctx()
        self.name = c._name(hint)
        self.length = _t(length)
        self.cont = z3.Function("cont_" + self.name, z3.IntSort(), z3.IntSort())
        self.origin = origin

    def __repr__(self):
        return "<blob %s len=%s%s>" % (self.name, self.length, " origin=%s" % (self.origin[0],) if self.origin else "")


class Lit(object):
    __slots__ = ("b",)

    def __init__(self, b):
        self.b = bytes(b)

    def length(self):
        return z3.IntVal(len(self.b))

    def __repr__(self):
        return "Lit(%r)" % (self.b if len(self.b) < 24 else self.b[:20] + b"...",)


class Field(object):
    __slots__ = ("width", "value")

    def __init__(self, width, value):
        self.width = width
        self.value = _t(value)

    def length(self):
        return z3.IntVal(self.width)

    def byte(self, k):
        """k-th byte (0 = most significant)"""
        return _simp((self.value / (256 ** (self.width - 1 - k))) % 256)

    def __repr__(self):
        return "Field(%d,%s)" % (self.width, self.value)


class Slice(object):
    """bytes [off, off+len) of a base blob"""
    __slots__ = ("base", "off", "len")

    def __init__(self, base, off, length):
        self.base = base
        self.off = _simp(_t(off))
        self.len = _simp(_t(length))

    def length(self):
        return self.len

    def whole(self):
        if _const(self.off) == 0 and z3.eq(_simp(self.len), _simp(self.base.length)):
            return True
        # semantic check under the current path condition
        if _const(self.off) != 0 or self.base.origin is None or _const(self.len) is None:
            return False
        try:
            ok, _ = ctx().must_hold(z3.And(self.off == 0, self.len == self.base.length))
        except Unsupported:
            return False
        return ok

    def __repr__(self):
        return "Slice(%s,%s,%s)" % (self.base.name, self.off, self.len)


def _norm(segs):
    out = []
    for s in segs:
        if isinstance(s, Lit):
            if not s.b:
                continue
            if out and isinstance(out[-1], Lit):
                out[-1] = Lit(out[-1].b + s.b)
                continue
        elif isinstance(s, Slice):
            if _const(s.len) == 0:
                continue
            if out and isinstance(out[-1], Slice) and out[-1].base is s.base and \
                    _const(out[-1].off + out[-1].len - s.off) == 0:
                out[-1] = Slice(s.base, out[-1].off, out[-1].len + s.len)
                continue
        elif isinstance(s, Field) and _const(s.value) is not None:
            v = _const(s.value)
            lit = Lit(v.to_bytes(s.width, "big"))
            if out and isinstance(out[-1], Lit):
                out[-1] = Lit(out[-1].b + lit.b)
            else:
                out.append(lit)
            continue
        out.append(s)
    return tuple(out)


class Rope(Sym):
    """A symbolic `bytes` value."""
    __slots__ = ("segs",)
    pytype = bytes

    def __init__(self, segs=()):
        self.segs = _norm(segs)

    # -- constructors ----------------------------------------------------------
    @staticmethod
    def lit(b):
        return Rope((Lit(b),))

    @staticmethod
    def blob(hint, length, origin=None, assume_nonneg=True):
        base = Base(hint, length, origin)
        if assume_nonneg:
            ctx().assume(base.length >= 0)
        return Rope((Slice(base, 0, base.length),))

    @staticmethod
    def of(v):
        if isinstance(v, Rope):
            return v
        if isinstance(v, (bytes, bytearray)):
            return Rope.lit(bytes(v))
        raise TypeError("a bytes-like object is required, not %r" % V.pytype_of(v).__name__)

    def __repr__(self):
        return "Rope(%s)" % ", ".join(repr(s) for s in self.segs)

    # -- basic properties ------------------------------------------------------
    def length_term(self):
        if not self.segs:
            return z3.IntVal(0)
        return _simp(z3.Sum([s.length() for s in self.segs])) if len(self.segs) > 1 else _simp(self.segs[0].length())

    def length(self):
        return V.wrap(self.length_term())

    def truth_term(self):
        return self.length_term() > 0

    def is_concrete(self):
        return all(isinstance(s, Lit) for s in self.segs)

    def to_bytes(self):
        assert self.is_concrete()
        return b"".join(s.b for s in self.segs)

    def maybe_concrete(self):
        return self.to_bytes() if self.is_concrete() else self

    def single_whole_blob(self):
        """the base blob if this rope is exactly one whole base blob"""
        if len(self.segs) == 1 and isinstance(self.segs[0], Slice) and self.segs[0].whole():
            return self.segs[0].base
        return None

    # -- operators (called by values.binop / compare) --------------------------
    def sym_binop(self, op, other, reflected):
        if op == "+":
            if V.pytype_of(other) is not bytes:
                raise TypeError("can't concat %s to bytes" % V.pytype_of(other).__name__)
            o = Rope.of(other)
            return Rope(o.segs + self.segs) if reflected else Rope(self.segs + o.segs)
        if op == "%" or op == "*":
            raise Unsupported("bytes %s on a rope" % op)
        return NotImplemented

    def __add__(self, o):
        return self.sym_binop("+", o, False)

    def __radd__(self, o):
        return self.sym_binop("+", o, True)

    def sym_compare(self, op, other, reflected):
        if op not in ("==", "!="):
            raise Unsupported("ordering of ropes")
        if V.pytype_of(other) is not bytes:
            return op == "!="
        r = rope_eq(self, Rope.of(other))
        if op == "==":
            return r
        return V.unaryop("not", r) if isinstance(r, Sym) else (not r)

    def __eq__(self, o):
        return self.sym_compare("==", o, False)

    def __ne__(self, o):
        return self.sym_compare("!=", o, False)

    # -- slicing ---------------------------------------------------------------
    def split_at(self, n):
        """(left, right) with len(left) == n; requires 0 <= n <= len (the caller
        establishes that).  Forks on segment boundaries."""
        n = _simp(_t(n))
        left = []
        segs = list(self.segs)
        c = ctx()
        i = 0
        while True:
            if _const(n) == 0:
                return Rope(left), Rope(segs[i:])
            if i == len(segs):
                # n > 0 but nothing left: infeasible by the caller's precondition
                c.assume(n == 0)
                return Rope(left), Rope(())
            s = segs[i]
            sl = _simp(s.length())
            # three cases: n >= len(s) (take it whole) / n < len(s) (cut inside)
            if c.branch(n >= sl, "rope-split"):
                left.append(s)
                n = _simp(n - sl)
                i += 1
                continue
            if c.branch(n == 0, "rope-split0"):
                return Rope(left), Rope(segs[i:])
            a, b = _cut(s, n)
            return Rope(left + a), Rope(b + segs[i + 1:])

    def clamp_index(self, k, ln):
        """python slice-bound normalisation of k against length term ln -> Int term"""
        if k is None:
            return None
        k = _t(k)
        c = ctx()
        if c.branch(k < 0, "slice-neg"):
            k = k + ln
            if c.branch(k < 0, "slice-neg2"):
                return z3.IntVal(0)
            return _simp(k)
        if c.branch(k > ln, "slice-clamp"):
            return ln
        return _simp(k)

    def sym_getitem(self, key):
        ln = self.length_term()
        if type(key) is slice:
            if key.step is not None and key.step != 1:
                raise Unsupported("rope slice with a step")
            a = self.clamp_index(key.start, ln)
            b = self.clamp_index(key.stop, ln)
            r = self
            if b is not None:
                r, _ = r.split_at(b)
            if a is not None:
                if b is not None and ctx().branch(a > b, "slice-empty"):
                    return Rope(()).maybe_concrete()
                _, r = r.split_at(a)
            return r.maybe_concrete()
        k = _t(key)
        c = ctx()
        if c.branch(k < 0, "idx-neg"):
            k = k + ln
        if c.branch(z3.Or(k < 0, k >= ln), "idx-oob"):
            raise IndexError("index out of range")
        _, r = self.split_at(k)
        one, _ = r.split_at(1)
        return V.wrap(byte_term(one))

    def sym_iter(self):
        n = _const(self.length_term())
        r = self
        if n is None:
            # symbolic length: unroll under the interpreter's loop bound
            interp = ITER_INTERP[0]
            k = 0
            while ctx().branch(r.length_term() > 0, "rope-iter"):
                k += 1
                if interp is None or k > interp.loop_bound:
                    if interp is None:
                        raise Unsupported("iteration over a rope of symbolic length")
                    interp.bound_hit("iteration over a rope needs more than %d steps" % interp.loop_bound)
                one, r = r.split_at(1)
                yield V.wrap(byte_term(one))
            return
        for _ in range(n):
            one, r = r.split_at(1)
            yield V.wrap(byte_term(one))

    def sym_unpack(self, n, starred):
        if starred:
            raise Unsupported("starred unpacking of a rope")
        if ctx().branch(self.length_term() == n, "unpack-len"):
            out = []
            r = self
            for _ in range(n):
                one, r = r.split_at(1)
                out.append(V.wrap(byte_term(one)))
            return out
        raise ValueError("wrong number of values to unpack (expected %d)" % n)

    def sym_contains(self, item):
        raise Unsupported("membership test on a rope")

    def concretize(self, model):
        out = []
        for s in self.segs:
            if isinstance(s, Lit):
                out.append(s.b)
            elif isinstance(s, Field):
                v = model.eval(s.value, model_completion=True).as_long()
                out.append(v.to_bytes(s.width, "big"))
            else:
                off = model.eval(s.off, model_completion=True).as_long()
                ln = model.eval(s.len, model_completion=True).as_long()
                if ln > 1 << 24:
                    raise Unsupported("counterexample needs a %d-byte blob" % ln)
                h = CONCRETIZERS.get(s.base.origin[0]) if s.base.origin else None
                if h is not None:
                    whole = h(s.base, model)
                    out.append(whole[off:off + ln])
                else:
                    bs = bytearray()
                    for i in range(ln):
                        x = model.eval(s.base.cont(off + i), model_completion=True).as_long()
                        bs.append(x % 256)
                    out.append(bytes(bs))
        return b"".join(out)


CONCRETIZERS = {}   # origin kind -> fn(base, model) -> bytes of the whole blob


def _cut(s, n):
    """cut segment s at 0 < n < len(s) -> (list left, list right)"""
    if isinstance(s, Lit):
        k = _const(n)
        if k is None:
            # symbolic cut inside a literal: enumerate the feasible cut points
            c = ctx()
            opts = [n == j for j in range(1, len(s.b))]
            j = c.decide(opts, "lit-cut") + 1
            return [Lit(s.b[:j])], [Lit(s.b[j:])]
        return [Lit(s.b[:k])], [Lit(s.b[k:])]
    if isinstance(s, Field):
        c = ctx()
        k = _const(n)
        if k is None:
            opts = [n == j for j in range(1, s.width)]
            k = c.decide(opts, "field-cut") + 1
        bs = [ByteSeg(s.byte(j)) for j in range(s.width)]
        return bs[:k], bs[k:]
    if isinstance(s, Slice):
        return [Slice(s.base, s.off, n)], [Slice(s.base, s.off + n, s.len - n)]
    raise Unsupported("cut of %r" % (s,))


def ByteSeg(e):
    """one symbolic byte as a width-1 field"""
    return Field(1, e)


def byte_term(r):
    """Int term of a rope of length 1"""
    r = Rope(r.segs)
    if len(r.segs) != 1:
        # drop segments that the path condition proves empty
        keep = []
        for sg in r.segs:
            try:
                empty, _ = ctx().must_hold(sg.length() == 0)
            except Unsupported:
                empty = False
            if not empty:
                keep.append(sg)
        if len(keep) != 1:
            raise Unsupported("byte_term of %r" % (r,))
        r = Rope(keep)
    s = r.segs[0]
    if isinstance(s, Lit):
        return z3.IntVal(s.b[0])
    if isinstance(s, Field):
        if s.width != 1:
            raise Unsupported("byte_term of wide field")
        return s.value
    c = ctx()
    e = s.base.cont(s.off)
    c.add_fact(z3.And(e >= 0, e <= 255))   # contract of a byte; cannot make pc infeasible
    return e


def fix_small_lengths(r, total):
    """r is known to be `total` (small) bytes long: give every blob slice of symbolic length a constant length
    (forking over the feasible values), so that it can be taken apart byte by byte"""
    segs = []
    c = ctx()
    for sg in r.segs:
        if isinstance(sg, Slice) and _const(sg.len) is None:
            k = c.decide([sg.len == j for j in range(total + 1)], "small-len")
            if k == 0:
                continue
            sg = Slice(sg.base, sg.off, k)
        segs.append(sg)
    return Rope(segs)


def int_of_rope(r, width):
    """big-endian unsigned integer term of a rope of exactly `width` bytes"""
    if len(r.segs) == 1 and isinstance(r.segs[0], Field) and r.segs[0].width == width:
        return r.segs[0].value
    r = fix_small_lengths(r, width)
    total = z3.IntVal(0)
    rest = r
    for k in range(width):
        one, rest = rest.split_at(1)
        total = total + byte_term(one) * (256 ** (width - 1 - k))
    return _simp(total)


def rope_eq(a, b):
    """equality of two ropes as a value (True/False/SymBool); structural, with
    solver terms for blob offsets/lengths and symbolic bytes."""
    la, lb = a.length_term(), b.length_term()
    conj = []
    sa, sb = _merge_semantic(list(a.segs)), _merge_semantic(list(b.segs))
    # fast path: identical structure
    while sa and sb:
        x, y = sa[0], sb[0]
        if isinstance(x, Lit) and isinstance(y, Lit):
            n = min(len(x.b), len(y.b))
            if x.b[:n] != y.b[:n]:
                return False
            sa[0:1] = [Lit(x.b[n:])] if len(x.b) > n else []
            sb[0:1] = [Lit(y.b[n:])] if len(y.b) > n else []
            continue
        if isinstance(x, Slice) and isinstance(y, Slice) and x.base is y.base:
            conj.append(x.off == y.off)
            conj.append(x.len == y.len)
            sa.pop(0)
            sb.pop(0)
            continue
        if isinstance(x, Slice) and isinstance(y, Slice) and len(sa) == 1 and len(sb) == 1 and not conj \
                and x.base.origin is None and y.base.origin is None \
                and _const(x.off) == 0 and _const(y.off) == 0 and z3.eq(x.len, x.base.length) and z3.eq(y.len, y.base.length):
            # two different whole blobs with unconstrained content: their equality is an
            # uninterpreted (symmetric) predicate of the two blobs, implying equal lengths
            n1, n2 = sorted([x.base.name, y.base.name])
            e = z3.Bool("blob_eq(%s,%s)" % (n1, n2))
            ctx().assume(z3.And(z3.Implies(e, x.len == y.len), z3.Implies(z3.And(x.len == 0, y.len == 0), e)))
            return V.wrap(e)
        if isinstance(x, Field) and isinstance(y, Field) and x.width == y.width:
            conj.append(x.value == y.value)
            sa.pop(0)
            sb.pop(0)
            continue
        if isinstance(x, Field) and isinstance(y, Lit) or isinstance(x, Lit) and isinstance(y, Field):
            f, l, fl, ll = (x, y, sa, sb) if isinstance(x, Field) else (y, x, sb, sa)
            if len(l.b) < f.width:
                return _slow_eq(a, b)
            conj.append(f.value == int.from_bytes(l.b[:f.width], "big"))
            fl.pop(0)
            ll[0:1] = [Lit(l.b[f.width:])] if len(l.b) > f.width else []
            continue
        return _slow_eq(a, b)
    if sa or sb:
        # one side has segments left: equal only if those are empty
        rest = sa or sb
        conj.append(z3.Sum([s.length() for s in rest]) == 0 if len(rest) > 1 else rest[0].length() == 0)
    return V.wrap(z3.And(*conj)) if conj else True


def _merge_semantic(segs):
    """merge adjacent slices of the same base blob that the path condition
    proves contiguous (the syntactic merge of _norm misses those)"""
    if len(segs) < 2:
        return segs
    out = [segs[0]]
    for s in segs[1:]:
        p = out[-1]
        if isinstance(p, Slice) and isinstance(s, Slice) and p.base is s.base:
            try:
                ok, _ = ctx().must_hold(p.off + p.len == s.off)
            except Unsupported:
                ok = False
            if ok:
                out[-1] = Slice(p.base, p.off, p.len + s.len)
                continue
        out.append(s)
    return out


def _slow_eq(a, b):
    """general case: equal lengths and bytewise equal, for ropes whose lengths
    are concrete and small; otherwise not expressible -> Unsupported."""
    na, nb = _const(a.length_term()), _const(b.length_term())
    if na is None or nb is None:
        if not ctx().branch(a.length_term() == b.length_term(), "rope-eq-len"):
            return False
        if na is None and nb is not None:
            a = _fix_len(a, nb)
            na = nb
        elif nb is None and na is not None:
            b = _fix_len(b, na)
            nb = na
        else:
            raise Unsupported("equality of structurally different ropes of symbolic length: %r vs %r" % (a, b))
    if na != nb:
        return False
    if na > 64:
        raise Unsupported("bytewise equality of long ropes")
    conj = []
    ra, rb = a, b
    for _ in range(na):
        x, ra = ra.split_at(1)
        y, rb = rb.split_at(1)
        conj.append(byte_term(x) == byte_term(y))
    return V.wrap(z3.And(*conj)) if conj else True


def _fix_len(r, k):
    """r is known (by the path condition) to have length k: rewrite a single
    blob slice so that its length is the constant"""
    if len(r.segs) == 1 and isinstance(r.segs[0], Slice):
        s = r.segs[0]
        return Rope((Slice(s.base, s.off, k),))
    raise Unsupported("cannot fix the length of %r" % (r,))


def _fix_total(r, k):
    """r is known to have total length k: if exactly one segment has a
    non-constant length, make it constant"""
    var = [i for i, s in enumerate(r.segs) if _const(s.length()) is None]
    if len(var) != 1:
        return r
    rest = sum(_const(s.length()) for i, s in enumerate(r.segs) if i != var[0])
    s = r.segs[var[0]]
    segs = list(r.segs)
    if k - rest == 0:
        del segs[var[0]]
    else:
        segs[var[0]] = Slice(s.base, s.off, k - rest)
    return Rope(segs)


class RopeIO(object):
    """model of io.BytesIO over a rope (read-only use, as in brine.load)"""

    def __init__(self, data=b""):
        self.rope = Rope.of(data)

    def read(self, n=None):
        ln = self.rope.length_term()
        if n is None:
            out, self.rope = self.rope, Rope(())
            return out.maybe_concrete()
        if V.pytype_of(n) is not int:
            raise TypeError("integer argument expected")
        n = _t(n)
        c = ctx()
        if c.branch(n < 0, "read-neg"):
            out, self.rope = self.rope, Rope(())
            return out.maybe_concrete()
        if c.branch(n >= ln, "read-short"):
            out, self.rope = self.rope, Rope(())
            k = _const(n)
            if k is not None and k <= 16 and _const(ln) is None:
                # short read of a small request: make the length explicit
                j = c.decide([ln == j for j in range(k + 1)], "read-len")
                out = _fix_total(out, j)
            return out.maybe_concrete()
        out, self.rope = self.rope.split_at(n)
        return out.maybe_concrete()
