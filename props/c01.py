"""C01 -- remote calls compute what a local call would, at any nesting depth.

O1/O2: the real caller-side and callee-side code (netref __call__, syncreq,
sync_request/async_request/_async_request/_box/_send; serve/_dispatch/
_dispatch_request/_unbox/_handle_call) executed symbolically against a
frame-level peer, with symbolic argument and result values.
O3: call trees across two real connections vs the same tree evaluated in-process
(exhaustive over tree shapes within the bound; native execution).
"""
import collections
import sys

import z3

from engine import core, values as V
from engine.core import ctx
from engine.harness import Run, Acc, par_explore
from engine.interp import Interp
from engine.models import SymText
from engine.values import Sym, SymInt, SymBool
from props import l2
from specs import plain_sym as P

REPLAY_HEAD = '''# replay of a counterexample found by /verif (property C01) on the real rpyc
import sys, threading, queue
sys.path.insert(0, __import__("os").environ.get("VERIF_REPO", "/repo")); sys.path.insert(0, "/verif")
from props import pairs as l2
from rpyc.core import consts
'''


REPLAY_CALL = REPLAY_HEAD + '''
import collections
class Ref(object): pass
class Pt(collections.namedtuple("Pt", "x y")): pass
ref = Ref(); rec = Pt(1, 2)
SHAPES = [((rec, (5, rec)), {"p": rec}), ((), {}), ((12345678901234567890, "text"), {}), (((7, ref), None), {"key": -5}), ((ref,), {"k2": ref, "k1": (1, True), "k3": None})]
pair = l2.Pair(config_a=dict(allow_public_attrs=True), config_b=dict(allow_public_attrs=True))
seen = []
def target(*a, **k):
    seen.append((a, k)); return ("ret", len(a), tuple(sorted(k)))
def raiser(*a, **k):
    seen.append((a, k)); raise KeyError("nope")
proxy = pair.a._unbox(pair.b._box(target))          # side a holds a proxy to side b's function
praiser = pair.a._unbox(pair.b._box(raiser))
bad = []
def norm(x, here):
    if type(x) is tuple: return tuple(norm(y, here) for y in x)
    if isinstance(x, Pt): return "REF" if here == 0 else "RECORD-ARRIVED-BY-VALUE"
    if isinstance(x, Ref): return "REF"
    if hasattr(x, "____id_pack__"): return "REF"     # a proxy of the argument object
    return x
for (a, k) in SHAPES:
    del seen[:]
    out = proxy(*a, **k)
    if len(seen) != 1: bad.append("target ran %d times" % len(seen)); continue
    sa, sk = seen[0]
    if norm(sa, 1) != norm(a, 0) or [(x, norm(y, 1)) for x, y in sk.items()] != [(x, norm(y, 0)) for x, y in k.items()]:
        bad.append(("callee saw", norm(sa, 1), dict((x, norm(y, 1)) for x, y in sk.items()), "sent", norm(a, 0), k.keys()))
    if out != ("ret", len(a), tuple(sorted(k))): bad.append(("caller got", str(out)))
    del seen[:]
    try:
        praiser(*a, **k); bad.append("no exception")
    except KeyError as e:
        if len(seen) != 1: bad.append("raiser ran %d times" % len(seen))
bad = [str(b) for b in bad]
pair.close()
print(bad)
if bad:
    print("REPRODUCED"); sys.exit(1)
'''


class Pt(collections.namedtuple("Pt", "x y")):
    """a record (tuple subclass): not a plain tuple, so it travels by reference like any other object"""


def arg_shapes(c):
    """positional and keyword arguments of a call: symbolic leaves, tuples mixing values and references"""
    k = c.choose(5, "arg-shape")
    ref = Ref("arg-object")
    if k == 4:
        rec = Pt(1, 2)
        return (rec, (5, rec)), {"p": rec}, rec
    if k == 0:
        return (), {}, None
    if k == 1:
        return (SymInt(c.fresh_int("a0")), SymText.fresh(c, "a1", max_chars=1000)), {}, None
    if k == 2:
        return ((SymInt(c.fresh_int("a0")), ref), None), {"key": SymInt(c.fresh_int("kv"))}, ref
    return (ref,), {"k2": ref, "k1": (1, SymBool(c.fresh_bool("kb"))), "k3": None}, ref


def safe(x):
    """description of a value that never touches a proxy (repr of a proxy is a remote call)"""
    from rpyc.core import netref
    if isinstance(x, netref.BaseNetref):
        return "<proxy %s>" % (object.__getattribute__(x, "____id_pack__"),)
    if isinstance(x, (tuple, list)):
        return "(" + ", ".join(safe(y) for y in x) + ")"
    if isinstance(x, dict):
        return "{" + ", ".join("%s: %s" % (k, safe(v)) for k, v in x.items()) + "}"
    return repr(x)


class Ref(object):
    """an object that travels by reference"""

    def __init__(self, name):
        self.name = name


def same_arg(a, b, ref_ok):
    """equality of an argument as sent and as seen by the callee: values equal (term), references identical"""
    if isinstance(a, (Ref, Pt)) or isinstance(b, (Ref, Pt)):
        return ref_ok(a, b)
    if type(a) is tuple and type(b) is tuple:
        if len(a) != len(b):
            return False
        parts = [same_arg(x, y, ref_ok) for x, y in zip(a, b)]
        if any(p is False for p in parts):
            return False
        terms = [p for p in parts if p is not True]
        return z3.And(*terms) if terms else True
    return P.same(a, b)


# ---------------------------------------------------------------------------
def ob_caller(run, interp):
    from rpyc.core.protocol import Connection
    from rpyc.core import consts, netref

    def ob(o):
        o.symbolic = ["argument values: Int / opaque text / Bool at the leaves of 4 argument shapes (positional, keyword, nested tuples with references)",
                      "peer's answer: value (Int) / exception record / reference"]
        o.stubs = ["identity codec refusing what brine.dumpable refuses (C04)", "in-memory frame list (C05)", "virtual clock"]
        acc = Acc()

        def harness(c):
            l2.install_identity_codec(interp)
            clk = l2.install_clock(interp)
            peer = CallPeer(c)
            chan = l2.ListChannel(interp, clk, peer)
            peer.chan = chan
            conn = l2.make_conn(chan)
            target = ("builtins.function", 111, 222)
            proxy = conn._netref_factory(target)
            args, kwargs, ref = arg_shapes(c)
            c.notes.update(conn=conn, peer=peer, args=args, kwargs=kwargs, ref=ref, target=target, proxy=proxy)
            try:
                return ("ok", interp.call(type(proxy).__call__, (proxy,) + tuple(args), kwargs))
            except ValueError as e:
                return ("exc", e)
            finally:
                l2.retire(conn)

        def on_path(r):
            c = r.ctx
            if r.outcome == "abort":
                return
            n = c.notes
            peer, conn = n["peer"], n["conn"]
            acc.inc("answer:%s" % peer.answer)
            bad = None
            conds = []
            if r.outcome != "return":
                bad = "the call raised %s: %s" % (type(r.exc).__name__ if r.exc else r.outcome, r.exc)
            elif len(peer.requests) != 1:
                bad = "%d request frames for one call" % len(peer.requests)
            else:
                kind, seq, (handler, boxed) = peer.requests[0]
                if kind != consts.MSG_REQUEST or handler != consts.HANDLE_CALL:
                    bad = "request is (%r, handler %r)" % (kind, handler)
                else:
                    try:
                        tgt, a, kw = unbox_ref(boxed, conn)
                    except Exception as e:
                        bad = "request arguments cannot be decoded by the reference: %r" % (e,)
                    else:
                        if tgt != ("local", n["target"]):
                            bad = "target is %r" % (tgt,)
                        ref_ok = lambda x, y: (isinstance(y, tuple) and y[0] == "remote" and conn._local_objects[y[1]] is x) if isinstance(x, (Ref, Pt)) else False
                        eq = same_arg(tuple(n["args"]), a, ref_ok)
                        if eq is False:
                            bad = bad or "positional arguments changed on the way"
                        elif eq is not True:
                            conds.append(eq)
                        kws = dict(kw)
                        if sorted(kws) != sorted(n["kwargs"]):
                            bad = bad or "keyword names changed: %r" % (sorted(kws),)
                        elif [x[0] for x in kw] != list(n["kwargs"]):
                            bad = bad or "keyword order changed on the way: sent %r, on the wire %r" % (list(n["kwargs"]), [x[0] for x in kw])
                        else:
                            for k_, v_ in n["kwargs"].items():
                                e2 = same_arg(v_, kws[k_], ref_ok)
                                if e2 is False:
                                    bad = bad or "keyword argument %s changed" % k_
                                elif e2 is not True:
                                    conds.append(e2)
                # the caller's outcome is exactly the peer's answer
                st, val = r.value
                if peer.answer == "value":
                    if st != "ok" or val is not peer.value:
                        bad = bad or "caller got %r, peer answered a value" % (st,)
                elif peer.answer == "exception":
                    if st != "exc" or not isinstance(val, ValueError) or tuple(val.args) != (peer.value,):
                        bad = bad or "caller got %r for an exception answer" % (st,)
                else:
                    if st != "ok" or not isinstance(val, netref.BaseNetref) or val.____id_pack__ != ("builtins.list", 5, 6):
                        bad = bad or "caller got %r for a reference answer" % (val,)
            model = None
            if bad is None and conds:
                ok, model = c.must_hold(z3.And(*conds))
                if not ok:
                    bad = "argument values changed on the way"
            if len(o.samples) < 4 and peer.requests:
                o.samples.append({"request": safe(peer.requests[0])[:160], "answer": peer.answer})
            if bad and len(o.violations) < 2:
                run.replay(o, "caller:%s" % bad.split()[0], bad, REPLAY_CALL)

        n_, incomplete = par_explore(run, o, harness, on_path, acc, split_depth=3)
        o.paths = dict(acc.counts, total=n_)
        if incomplete:
            o.verdict = "inconclusive"
            o.detail = incomplete
        for k in ("answer:value", "answer:exception", "answer:reference"):
            if not acc.counts.get(k):
                raise core.HarnessError("reachability twin: %s" % acc.counts)
    return ob


class CallPeer(object):
    """frame-level peer: records the request and answers it (value / exception / reference)"""

    def __init__(self, c):
        self.c = c
        self.requests = []
        self.chan = None
        self.answer = None

    def on_frame(self, frame):
        from rpyc.core import consts
        kind, seq, args = frame.obj
        if kind != consts.MSG_REQUEST:
            return
        if args[0] == consts.HANDLE_DEL:
            return
        self.requests.append(frame.obj)
        k = self.c.choose(3, "peer-answer")
        self.answer = ["value", "exception", "reference"][k]
        if k == 0:
            self.value = SymInt(self.c.fresh_int("result"))
            self.chan.inbox.append(l2.Frame((consts.MSG_REPLY, seq, (consts.LABEL_VALUE, self.value))))
        elif k == 1:
            self.value = SymInt(self.c.fresh_int("excarg"))
            self.chan.inbox.append(l2.Frame((consts.MSG_EXCEPTION, seq, (("builtins", "ValueError"), (self.value,), (), "remote tb"))))
        else:
            self.value = ("builtins.list", 5, 6)
            self.chan.inbox.append(l2.Frame((consts.MSG_REPLY, seq, (consts.LABEL_REMOTE_REF, self.value))))


def unbox_ref(boxed, conn):
    """reference decoding of a boxed value (written from the published labels): values as they are, references as
    ('local', id) / ('remote', id)"""
    from specs import ref_wire as W
    label, value = boxed
    if label == W.LABEL["VALUE"]:
        return value
    if label == W.LABEL["TUPLE"]:
        return tuple(unbox_ref(x, conn) for x in value)
    if label == W.LABEL["LOCAL_REF"]:
        return ("local", tuple(value))
    if label == W.LABEL["REMOTE_REF"]:
        return ("remote", tuple(value))
    raise ValueError("label %r" % (label,))


# ---------------------------------------------------------------------------
def ob_callee(run, interp):
    from rpyc.core.protocol import Connection
    from rpyc.core import consts
    from rpyc.lib import get_id_pack

    def ob(o):
        o.symbolic = ["request sequence number: Int", "argument values as in O1", "callee outcome: value / reference / raises"]
        acc = Acc()

        def harness(c):
            l2.install_identity_codec(interp)
            clk = l2.install_clock(interp)
            chan = l2.ListChannel(interp, clk)
            conn = l2.make_conn(chan)
            calls = []
            outcome = ["value", "reference", "raise"][c.choose(3, "callee-outcome")]
            result = SymInt(c.fresh_int("result")) if outcome == "value" else Ref("result")

            def spy(*a, **k):
                calls.append((a, k))
                if outcome == "raise":
                    raise KeyError("nope")
                return result
            idp = get_id_pack(spy)
            conn._local_objects.add(idp, spy)
            args, kwargs, ref = arg_shapes(c)
            seq = SymInt(c.fresh_int("seq"))
            c.assume(z3.And(seq.e >= 0, seq.e < 10 ** 100))

            def box(x):
                if isinstance(x, (Ref, Pt)):
                    return (consts.LABEL_REMOTE_REF, ("builtins.list", 7, id(x) % 100000))
                if type(x) is tuple:
                    return (consts.LABEL_TUPLE, tuple(box(y) for y in x))
                return (consts.LABEL_VALUE, x)
            boxed = (consts.LABEL_TUPLE, ((consts.LABEL_LOCAL_REF, idp), box(tuple(args)),
                                          (consts.LABEL_TUPLE, tuple((consts.LABEL_TUPLE, ((consts.LABEL_VALUE, k_), box(v_))) for k_, v_ in kwargs.items()))))
            chan.inbox.append(l2.Frame((consts.MSG_REQUEST, seq, (consts.HANDLE_CALL, boxed))))
            c.notes.update(conn=conn, chan=chan, calls=calls, args=args, kwargs=kwargs, seq=seq, outcome=outcome, result=result)
            try:
                return interp.call(Connection.serve, (conn, 0))
            finally:
                l2.retire(conn)

        def on_path(r):
            c = r.ctx
            if r.outcome == "abort":
                return
            n = c.notes
            from rpyc.core import netref
            acc.inc(n["outcome"])
            bad = None
            conds = []
            calls, chan = n["calls"], n["chan"]
            if r.outcome != "return":
                bad = "serving the request raised %s: %s" % (type(r.exc).__name__ if r.exc else r.outcome, r.exc)
            elif len(calls) != 1:
                bad = "the target ran %d times" % len(calls)
            else:
                a, k = calls[0]
                ref_ok = lambda x, y: isinstance(x, (Ref, Pt)) and isinstance(y, netref.BaseNetref) and y.____id_pack__[0] == "builtins.list"
                eq = same_arg(tuple(n["args"]), tuple(a), ref_ok)
                if eq is False:
                    bad = "positional arguments seen by the target differ"
                elif eq is not True:
                    conds.append(eq)
                if sorted(k) != sorted(n["kwargs"]):
                    bad = bad or "keyword names seen by the target: %r" % (sorted(k),)
                elif list(k) != list(n["kwargs"]):
                    bad = bad or "keyword order seen by the target: %r, sent %r" % (list(k), list(n["kwargs"]))
                else:
                    for k_, v_ in n["kwargs"].items():
                        e2 = same_arg(v_, k[k_], ref_ok)
                        if e2 is False:
                            bad = bad or "keyword argument %s differs" % k_
                        elif e2 is not True:
                            conds.append(e2)
                if len(chan.out) != 1:
                    bad = bad or "%d response frames" % len(chan.out)
                else:
                    kind, rseq, payload = chan.out[0].obj
                    conds.append(V.term(rseq) == n["seq"].e if isinstance(rseq, Sym) else z3.BoolVal(False))
                    if n["outcome"] == "value" and not (kind == consts.MSG_REPLY and payload[0] == consts.LABEL_VALUE and payload[1] is n["result"]):
                        bad = bad or "reply does not carry the target's return value"
                    if n["outcome"] == "reference" and not (kind == consts.MSG_REPLY and payload[0] == consts.LABEL_REMOTE_REF and
                                                            n["conn"]._local_objects[payload[1]] is n["result"]):
                        bad = bad or "reply does not refer to the returned object"
                    if n["outcome"] == "raise" and not (kind == consts.MSG_EXCEPTION and payload[0] == ("builtins", "KeyError")):
                        bad = bad or "the target's exception was not reported as such"
            if bad is None and conds:
                ok, model = c.must_hold(z3.And(*conds))
                if not ok:
                    bad = "argument values / sequence number changed on the way"
            if len(o.samples) < 4 and calls:
                o.samples.append({"target_saw": safe(calls[0])[:120], "response": safe(chan.out[0].obj)[:120] if chan.out else None})
            if bad and len(o.violations) < 2:
                run.replay(o, "callee:%s" % bad.split()[0], bad, REPLAY_CALL)

        n_, incomplete = par_explore(run, o, harness, on_path, acc, split_depth=3)
        o.paths = dict(acc.counts, total=n_)
        if incomplete:
            o.verdict = "inconclusive"
            o.detail = incomplete
        for k in ("value", "reference", "raise"):
            if not acc.counts.get(k):
                raise core.HarnessError("reachability twin: %s" % acc.counts)
    return ob


# ---------------------------------------------------------------------------
# O3: call trees, real-vs-real
# ---------------------------------------------------------------------------

def gen_tree(c, depth, fan):
    """a call tree: node = (raises?, catches?, children)"""
    raises = c.choose(2, "raises") == 1
    kids = []
    if depth > 0:
        nk = c.choose(fan + 1, "children")
        for _ in range(nk):
            kids.append(gen_tree(c, depth - 1, fan))
    catches = c.choose(2, "catches") == 1 if kids else False
    return (raises, catches, kids)


def tree_size(t):
    return 1 + sum(tree_size(k) for k in t[2])


TREE_RUNNER = '''
class Boom(ValueError): pass
def run_tree(tree, remote):
    """evaluate the call tree; node functions alternate between the two sides when remote is True.
    Returns (result, invocation log)."""
    log = []
    pair = l2.Pair(config_a=dict(allow_public_attrs=True), config_b=dict(allow_public_attrs=True)) if remote else None
    try:
        def make(node, path, side):
            raises, catches, kids = node
            kid_fns = [make(k, path + (i,), 1 - side) for i, k in enumerate(kids)]
            def fn(token, acc, *, depth=0):
                log.append(path)
                acc.append(path)                      # mutation through a reference argument
                vals = []
                for i, kf in enumerate(kid_fns):
                    callee = kf
                    if remote:
                        # hand the child function to the other side and call it through the connection
                        conn = pair.a if side == 0 else pair.b
                        other = pair.b if side == 0 else pair.a
                        callee = proxies[(path + (i,))][side]
                    try:
                        vals.append(callee((token, i, "s"), acc, depth=depth + 1))
                    except ValueError as e:
                        if not catches: raise
                        vals.append(("caught", type(e).__name__, e.args[0] if e.args else None))
                if raises: raise ValueError("node %r" % (path,))
                # the last child's fresh object (owned by the OTHER side) is handed further up; a leaf makes a fresh one
                fresh = vals[-1][3] if vals and type(vals[-1]) is tuple and len(vals[-1]) == 4 and vals[-1][0] != "caught" else ["made-by", path]
                return (path, tuple(vals), token, fresh)
            return fn
        proxies = {}
        root = make(tree, (), 0)
        if remote:
            # every node function lives on its side; the caller side holds a proxy to it
            import functools
            fns = {}
            def collect(node, path, side):
                fns[path] = side
                for i, k in enumerate(node[2]): collect(k, path + (i,), 1 - side)
            collect(tree, (), 0)
            # build real functions per path again so that proxies can refer to them
            built = {}
            def build(node, path, side):
                raises, catches, kids = node
                for i, k in enumerate(kids): build(k, path + (i,), 1 - side)
                def fn(token, acc, *, depth=0):
                    log.append(path)
                    acc.append(path)
                    vals = []
                    for i in range(len(kids)):
                        callee = proxies[path + (i,)]
                        try:
                            vals.append(callee((token, i, "s"), acc, depth=depth + 1))
                        except ValueError as e:
                            if not catches: raise
                            vals.append(("caught", "ValueError", e.args[0] if e.args else None))
                    if raises: raise ValueError("node %r" % (path,))
                    fresh = vals[-1][3] if vals and type(vals[-1]) is tuple and len(vals[-1]) == 4 and vals[-1][0] != "caught" else ["made-by", path]
                    return (path, tuple(vals), token, fresh)
                built[path] = fn
                # the parent (other side) needs a proxy to fn: box it on fn's side, unbox on the parent's side
                owner = pair.a if side == 0 else pair.b
                user = pair.b if side == 0 else pair.a
                proxies[path] = user._unbox(owner._box(fn)) if path else fn
            build(tree, (), 0)
            root = built[()]
        acc = []
        try:
            res = ("ok", root(0, acc))
        except ValueError as e:
            res = ("exc", type(e).__name__, e.args)
        norm = lambda x: tuple(norm(y) for y in x) if isinstance(x, (tuple, list)) else x
        return norm(res), [tuple(p) for p in log], [tuple(p) for p in acc]
    finally:
        if pair: pair.close()
'''


def replay_tree(tree, dummy):
    return REPLAY_HEAD + TREE_RUNNER + '''
tree = %r
local = run_tree(tree, False)
try:
    remote = run_tree(tree, True)
except Exception as e:
    print("local ", local)
    print("the same computation through the connection raised %%r" %% (e,))
    print("REPRODUCED"); sys.exit(1)
print("local ", local)
print("remote", remote)
if local != remote:
    print("REPRODUCED"); sys.exit(1)
''' % (tree,)


def ob_trees(run, depth, fan):
    def ob(o):
        import subprocess
        import json
        import os
        o.symbolic = ["call tree: which nodes raise, which catch, fan-out <= %d, depth <= %d (exhaustive); nodes alternate between the two peers" % (fan, depth)]
        o.bounds = {"depth": depth, "fan_out": fan, "decided_by": "exhaustive enumeration of tree shapes, native execution on two real connections (no solver variables)"}
        trees = []

        def harness(c):
            t = gen_tree(c, depth, fan)
            trees.append(t)
            return t
        res, ex = core.explore(harness, max_paths=5000)
        # run all trees in one subprocess of the repository's interpreter
        script = REPLAY_HEAD + TREE_RUNNER + '''
import json
trees = %r
bad = []
for t in trees:
    try:
        a = run_tree(t, False); b = run_tree(t, True)
    except Exception as e:
        bad.append((t, "harness: %%r" %% (e,))); continue
    if a != b: bad.append((t, (a, b)))
print(json.dumps(dict(n=len(trees), bad=[repr(x)[:600] for x in bad[:5]], first=repr(bad[0][0]) if bad else None)))
''' % (trees,)
        import tempfile
        with tempfile.NamedTemporaryFile("w", suffix=".py", delete=False) as tf:
            tf.write(script)
        try:
            p = subprocess.run(["/venv/bin/python", tf.name], capture_output=True, text=True, timeout=1500,
                               env=dict(os.environ, PYTHONPATH=os.environ.get("VERIF_REPO", "/repo")))
        finally:
            os.unlink(tf.name)
        if p.returncode != 0:
            raise core.HarnessError("tree runner failed: %s" % (p.stdout + p.stderr)[-500:])
        out = json.loads(p.stdout.strip().splitlines()[-1])
        o.paths = {"trees": out["n"], "max_nodes": max(tree_size(t) for t in trees)}
        o.samples.append({"trees_compared_local_vs_remote": out["n"], "example": repr(trees[-1])[:200]})
        if out["bad"]:
            run.replay(o, "tree", "a computation spread over two peers differs from the same computation in one process: %s" % out["bad"][0],
                       replay_tree(eval(out["first"]), 1))
    return ob


def main():
    run = Run("C01", level="other")
    interp = Interp()
    thorough = run.tier == "thorough"
    run.assumptions = ["identity codec / frame list stand in for brine / Channel (contracts discharged by C04/C05)",
                       "O3 is exhaustive enumeration of call-tree shapes executed natively on two real connections (the solver only "
                       "decides O1/O2's value-level assertions); deeper/wider trees are outside the bound"]
    run.obligation("O1_caller_role", "a call through a proxy emits exactly one CALL request carrying the target and equal/identical arguments; the caller gets exactly the peer's answer",
                   ob_caller(run, interp))
    run.obligation("O2_callee_role", "a CALL request runs the target exactly once with those arguments and is answered with its result / exception under the same number",
                   ob_callee(run, interp))
    run.obligation("O3_call_trees", "nested calls in both directions with exceptions raised and caught at different levels == the same tree in one process",
                   ob_trees(run, 3 if thorough else 2, 2))
    run.note_encoded(interp)
    sys.exit(run.finish())


if __name__ == "__main__":
    main()
