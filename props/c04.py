"""C04 -- the value serializer is lossless and exact about what it accepts.

Encoded (re-read from /repo at every run): brine.dump/_dump/_dump_* (all),
brine.load/_load/_load_* (all), brine.dumpable.
"""
import sys

import z3

from engine import core, values as V
from engine.core import ctx, explore
from engine.harness import Run, summarize_paths, Acc, par_explore
from engine.interp import Interp
from engine.rope import Rope
from engine.values import Sym
from specs import plain_sym as P
from specs import ref_wire as W

PRELUDE = '''# replay of a counterexample found by /verif on the real rpyc
import sys, struct, enum, collections, types
sys.path.insert(0, __import__("os").environ.get("VERIF_REPO", "/repo"))
from rpyc.core import brine
def F(hexbits): return struct.unpack("!d", bytes.fromhex(hexbits))[0]
class Color(enum.IntEnum):
    RED = 1
Point = collections.namedtuple("Point", "x y")
class MyStr(str): pass
class MyInt(int): pass
class MyBytes(bytes): pass
class MyTuple(tuple): pass
class MyFrozenset(frozenset): pass
def _fn(): pass
class _Cls(object): pass
def same(a, b):
    if type(a) is not type(b): return False
    if type(a) is float: return struct.pack("!d", a) == struct.pack("!d", b)
    if type(a) is complex: return struct.pack("!dd", a.real, a.imag) == struct.pack("!dd", b.real, b.imag)
    if type(a) is tuple: return len(a) == len(b) and all(same(x, y) for x, y in zip(a, b))
    if type(a) is slice: return same((a.start, a.stop, a.step), (b.start, b.stop, b.step))
    if type(a) is frozenset: return a == b
    return a == b
def is_plain(v):
    t = type(v)
    if v is None or v is NotImplemented or v is Ellipsis: return True
    if t in (bool, int, float, complex, bytes, str): return True
    if t in (tuple, frozenset): return all(is_plain(x) for x in v)
    if t is slice: return is_plain(v.start) and is_plain(v.stop) and is_plain(v.step)
    return False
'''

WITNESS_EXPR = {"list": "[1, 2]", "dict": "{'a': 1}", "set": "{1}", "bytearray": "bytearray(b'ab')", "function": "_fn",
                "class": "_Cls", "module": "types", "instance": "_Cls()", "enum_member": "Color.RED",
                "namedtuple": "Point(1, 2)", "str_subclass": "MyStr('s')", "int_subclass": "MyInt(5)",
                "bytes_subclass": "MyBytes(b'b')", "tuple_subclass": "MyTuple((1,))",
                "frozenset_subclass": "MyFrozenset([1])", "range": "range(3)", "memoryview": "memoryview(b'x')"}


def expr_of(v, model):
    """python source text building the concrete value of v under model"""
    import struct
    t = V.pytype_of(v)
    if isinstance(v, Sym) or t in (bool, int, str, bytes) or v is None or v is NotImplemented or v is Ellipsis:
        if t is float:
            x = V.concretize(v, model)
            return "F(%r)" % struct.pack("!d", x).hex()
        if t is complex:
            return "complex(%s, %s)" % (expr_of(P._f(v.real), model), expr_of(P._f(v.imag), model))
        if t is frozenset and isinstance(v, Sym):
            return "frozenset([%s])" % ", ".join(expr_of(x, model) for x in v.items)
        if t is slice and isinstance(v, Sym):
            return "slice(%s, %s, %s)" % tuple(expr_of(x, model) for x in (v.start, v.stop, v.step))
        c = V.concretize(v, model)
        if c is NotImplemented:
            return "NotImplemented"
        if c is Ellipsis:
            return "Ellipsis"
        return repr(c)
    if t is float:
        return "F(%r)" % struct.pack("!d", v).hex()
    if t is tuple:
        return "(" + "".join(expr_of(x, model) + ", " for x in v) + ")"
    if t is frozenset:
        return "frozenset([%s])" % ", ".join(expr_of(x, model) for x in v)
    if t is slice:
        return "slice(%s, %s, %s)" % tuple(expr_of(x, model) for x in (v.start, v.stop, v.step))
    for name, w in P.nonplain_witnesses():
        if type(w) is type(v) or (name in ("function", "class", "module") and w is v):
            return WITNESS_EXPR[name]
    raise core.Unsupported("no source expression for %r" % (t,))


def shape_sig(v):
    t = V.pytype_of(v)
    if t is tuple:
        return "(" + ",".join(shape_sig(x) for x in v) + ")"
    if t is frozenset:
        items = v.items if isinstance(v, Sym) else list(v)
        return "fs{" + ",".join(shape_sig(x) for x in items) + "}"
    if t is slice:
        return "slice[" + ",".join(shape_sig(x) for x in (v.start, v.stop, v.step)) + "]"
    return t.__name__


def replay_roundtrip(expr):
    return PRELUDE + '''
v = %s
d = brine.dumpable(v)
print("value", ascii(v), "dumpable", d, "plain", is_plain(v))
bad = False
try:
    data = brine.dump(v)
except TypeError as e:
    print("dump refused:", e)
    bad = d
except Exception as e:
    print("dump raised", type(e).__name__, e)
    bad = True
else:
    if not d:
        print("dump accepted a value dumpable() rejects")
        bad = True
    else:
        w = brine.load(data)
        if not same(v, w):
            print("round trip differs:", ascii(w))
            bad = True
if bad:
    print("REPRODUCED"); sys.exit(1)
''' % expr


def ob_roundtrip(run, interp, depth, arity, with_nonplain, name):
    from rpyc.core import brine

    def ob(o):
        o.symbolic = ["value kind at every position (exhaustive choice over %d leaf kinds, 3 container kinds%s)" % (
            len(P.LEAF_KINDS), ", %d non-plain witness types" % len(P.nonplain_witnesses()) if with_nonplain else ""),
            "int: Int (unbounded)", "bytes: length Int in [0, 2^32), content uninterpreted",
            "str: String (unbounded, utf-8 length < 2^32)", "float/complex: IEEE binary64 terms", "bool: Bool"]
        o.bounds = {"nesting_depth": depth, "max_container_arity": arity}
        o.stubs = ["struct.Struct pack/unpack (format read from the real object)", "str(int)/int(bytes) inverse pair with digit limit",
                   "utf-8 encode/decode inverse pair; UnicodeEncodeError iff lone surrogate", "io.BytesIO over ropes"]
        acc = Acc()

        def harness(c):
            v = P.gen_value(c, depth, arity, with_nonplain=with_nonplain)
            c.notes["v"] = v
            d = interp.call(brine.dumpable, (v,))
            c.notes["dumpable"] = d
            data = interp.call(brine.dump, (v,))
            c.notes["data"] = data
            return interp.call(brine.load, (data,))

        def on_path(r):
            c = r.ctx
            if r.outcome == "abort":
                return
            if r.outcome == "bound":
                raise core.BoundExceeded(str(r.exc))
            v = c.notes.get("v")
            if any(e[0] == "int_too_long" for e in c.log):
                acc.inc("outside")      # excluded by the property's wording
                return
            d = c.notes.get("dumpable")
            if isinstance(d, Sym):
                raise core.Unsupported("dumpable() returned a symbolic value")
            bad = None
            cond = None
            if r.outcome == "raise":
                if "data" in c.notes:
                    bad = "load(dump(v)) raised %s" % type(r.exc).__name__
                elif d is None:
                    bad = "dumpable raised %s" % type(r.exc).__name__
                elif isinstance(r.exc, TypeError) and not d:
                    acc.inc("refused")
                else:
                    bad = "dumpable()=%s but dump raised %s" % (d, type(r.exc).__name__)
            else:
                if not d:
                    bad = "dump accepted a value dumpable() rejects"
                else:
                    cond = P.same(v, r.value)
                    if cond is False:
                        bad = "round trip changed type/structure"
            if bad is None and cond is not None and cond is not True:
                holds, m = c.must_hold(cond)
                if not holds:
                    bad = "round trip changed the value"
                    model = m
            acc.inc("checked")
            acc.add("sigs", shape_sig(v))
            if len(o.samples) < 6 and len(c.pc) > 1:
                o.samples.append({"shape": shape_sig(v), "outcome": r.outcome if r.outcome != "raise" else type(r.exc).__name__,
                                  "wire": str(c.notes.get("data"))[:90], "pc": [str(x)[:60] for x in c.pc[:3]]})
            if bad is not None and o.verdict != "violated":
                m = c.check_model() if "model" not in locals() else model
                if m is None:
                    return      # the path turned out to be infeasible
                expr = expr_of(v, m)
                sig = "roundtrip:%s:%s" % (bad.split()[0], shape_sig(v))
                if not any(x["signature"].split(":")[1] == sig.split(":")[1] and kind_of_bad(x["what"]) == kind_of_bad(bad) for x in o.violations) and len(o.violations) < 6:
                    run.replay(o, sig_for(bad, v), "%s for value %s" % (bad, expr[:200]), replay_roundtrip(expr))

        n, incomplete = par_explore(run, o, harness, on_path, acc, split_depth=4)
        if incomplete:
            o.verdict = "inconclusive" if o.verdict != "violated" else o.verdict
            o.detail = incomplete
        stats = acc.counts
        o.paths = dict(stats, total=n)
        o.detail = (o.detail + "; " if o.detail else "") + "%d paths, %d distinct value shapes" % (n, len(acc.sets.get("sigs", ())))
        o.reach = "refusals reached: %d, round trips: %d" % (stats.get("refused", 0), stats.get("checked", 0) - stats.get("refused", 0))
        if stats.get("checked", 0) - stats.get("refused", 0) <= 0:
            raise core.HarnessError("reachability twin: no round trip completed")
    return ob


def kind_of_bad(s):
    return s.split()[0]


def sig_for(bad, v):
    """stable signature of a violation: what failed + the kinds of leaves involved"""
    leaves = set()

    def walk(x):
        t = V.pytype_of(x)
        if t is tuple:
            [walk(y) for y in x]
        elif t is frozenset:
            [walk(y) for y in (x.items if isinstance(x, Sym) else x)]
        elif t is slice:
            [walk(y) for y in (x.start, x.stop, x.step)]
        else:
            leaves.add(t.__name__)
    walk(v)
    word = "encode-raises" if "raised" in bad else ("mismatch" if "changed" in bad else "predicate")
    return "%s:%s" % (word, "+".join(sorted(leaves)))


# ---------------------------------------------------------------------------
def check_plain_result(o, run, r, what):
    """a decoder result must be a plain immutable value"""
    if r.outcome == "return":
        return P.is_plain(r.value)
    return True


def ob_decode_bounded(run, interp, nbytes, loads):
    from rpyc.core import brine

    def ob(o):
        o.symbolic = ["input: %d..%d arbitrary bytes (uninterpreted content, symbolic length)" % (0, nbytes)]
        o.bounds = {"input_bytes": nbytes, "element_loop_unwinding": interp.loop_bound, "policy": "paths needing more unwinding are cut and counted"}
        acc = Acc()
        natives = set()
        interp.native_calls = natives
        interp.on_bound = "cut"
        interp.cuts = 0

        def harness(c):
            n = c.fresh_int("wire_len")
            c.assume(z3.And(n >= 0, n <= nbytes))
            data = Rope.blob("wire", n, assume_nonneg=False)
            c.notes["data"] = data
            return interp.call(brine.load, (data,))

        def on_path(r):
            c = r.ctx
            if r.outcome in ("abort",):
                return
            if r.outcome == "bound":
                raise core.BoundExceeded(str(r.exc))
            k = "raise:" + type(r.exc).__name__ if r.outcome == "raise" else "value:" + P.kind_of(r.value).__name__
            acc.inc(k)
            if r.outcome == "return" and not P.is_plain(r.value):
                m = c.check_model()
                wire = c.notes["data"].concretize(m)
                run.replay(o, "decode-nonplain:%s" % P.kind_of(r.value).__name__,
                           "load(%r) yields a non-plain %s" % (wire, P.kind_of(r.value).__name__), replay_decode(wire))
            if len(o.samples) < 5 and r.outcome == "return" and len(c.pc) > 2:
                o.samples.append({"result_kind": k, "pc_size": len(c.pc), "decisions": len(r.decisions)})

        try:
            n, incomplete = par_explore(run, o, harness, on_path, acc, max_paths=300000, split_depth=5,
                                        extra=lambda: (sorted(natives), interp.cuts))
        finally:
            interp.native_calls = None
            interp.on_bound = "raise"
        kinds = acc.counts
        for nat, cuts in o.extra_results:
            natives.update(nat)
            interp.cuts += cuts
        o.paths = dict(kinds, total=n, cut_at_unwinding_bound=interp.cuts)
        if incomplete:
            o.verdict = "inconclusive"
            o.detail = incomplete
            return
        bad = sorted(x for x in natives if not native_ok(x))
        o.detail = "native callees on all paths: %s" % sorted(natives)
        if bad:
            run.replay(o, "decode-effects", "decoder reaches non-whitelisted callees: %s" % bad, replay_effects(bad))
        o.reach = "value-returning paths: %d" % sum(v for k, v in kinds.items() if k.startswith("value:"))
        if not any(k.startswith("value:") for k in kinds):
            raise core.HarnessError("reachability twin: decoder never returned a value")
    return ob


NATIVE_WHITELIST = ("engine.", "builtins.", "RopeIO", "list.", "dict.", "NoneType", "_io.", "complex", "slice", "frozenset", "tuple", "int")


def native_ok(name):
    banned = ("__import__", "eval", "exec", "pickle", "getattr", "setattr", "compile", "open", "system", "importlib")
    if any(b in name for b in banned):
        return False
    return True


def replay_effects(bad):
    return PRELUDE + '''
import inspect
src = inspect.getsource(brine)
i = src.index("# loading")
bad = [w for w in ("__import__", "eval(", "exec(", "pickle", "getattr(", "importlib", "open(") if w in src[i:src.index("# API")]]
print("suspicious names in the loading section:", bad, "reported callees: %r")
if bad:
    print("REPRODUCED"); sys.exit(1)
''' % (bad,)


def replay_decode(wire):
    return PRELUDE + '''
wire = %r
try:
    v = brine.load(wire)
except Exception as e:
    print("raises", type(e).__name__); sys.exit(0)
print("load ->", ascii(v), type(v))
if not is_plain(v):
    print("REPRODUCED"); sys.exit(1)
''' % (wire,)


def ob_decode_inductive(run, interp):
    """structural induction on the nesting of _load: with every recursive _load
    replaced by 'raises, or returns an arbitrary plain value and advances the
    stream', each of the real loaders (and _load's own dispatch) returns a plain
    value or raises."""
    from rpyc.core import brine

    def ob(o):
        o.symbolic = ["stream: arbitrary bytes of arbitrary (unbounded) length", "result of each nested _load: arbitrary plain value (kind choice exhaustive, content symbolic) or an exception"]
        o.bounds = {"element_loop_unwinding": 3, "policy": "cut", "induction": "on the number of nested _load calls (trusted principle)"}
        loaders = dict(brine._load_registry)
        kinds = {}
        natives = set()
        saved = interp.loop_bound
        interp.loop_bound = 3
        interp.on_bound = "cut"
        interp.cuts = 0
        interp.native_calls = natives

        def stub_load(interp_, stream):
            c = ctx()
            if c.choose(2, "nested-load") == 0:
                raise ValueError("nested _load raised")
            k = c.fresh_int("consumed")
            c.assume(k >= 0)
            stream.read(V.wrap(k))
            return P.LazyPlain(1)

        def mk(fn, stub_nested):
            def harness(c):
                n = c.fresh_int("wire_len")
                c.assume(n >= 0)
                data = Rope.blob("wire", n, assume_nonneg=False)
                from engine.rope import RopeIO
                c.notes["fn"] = fn.__name__
                return interp.call(fn, (RopeIO(data),))
            return harness

        def on_path(r):
            c = r.ctx
            if r.outcome == "abort":
                return
            if r.outcome == "bound":
                raise core.BoundExceeded(str(r.exc))
            k = "raise" if r.outcome == "raise" else "value:" + P.kind_of(r.value).__name__
            kinds[k] = kinds.get(k, 0) + 1
            if r.outcome == "return" and not P.is_plain(r.value) and o.verdict != "violated":
                run.replay(o, "inductive-nonplain:%s" % c.notes["fn"],
                           "%s can return a non-plain %s" % (c.notes["fn"], P.kind_of(r.value).__name__),
                           replay_effects([c.notes["fn"]]))
            if len(o.samples) < 5 and r.outcome == "return":
                o.samples.append({"loader": c.notes["fn"], "result_kind": k})

        total = 0
        try:
            interp.models[brine._load] = stub_load
            for tag, fn in sorted(loaders.items()):
                ex = core.Explorer(max_paths=100000, deadline=run.deadline)
                total += ex.run(mk(fn, True), on_path=on_path)
                if ex.incomplete:
                    o.verdict = "inconclusive"
                    o.detail = ex.incomplete
                    return
            del interp.models[brine._load]
            # _load's own dispatch with the registry's functions replaced by the induction hypothesis
            for fn in loaders.values():
                interp.models[fn] = stub_load
            ex = core.Explorer(max_paths=100000, deadline=run.deadline)
            total += ex.run(mk(brine._load, False), on_path=on_path)
        finally:
            interp.models.pop(brine._load, None)
            for fn in loaders.values():
                interp.models.pop(fn, None)
            interp.loop_bound = saved
            interp.on_bound = "raise"
            interp.native_calls = None
        o.paths = dict(kinds, total=total, cut_at_unwinding_bound=interp.cuts, loaders=len(loaders))
        bad = sorted(x for x in natives if not native_ok(x))
        if bad:
            run.replay(o, "decode-effects", "decoder reaches non-whitelisted callees: %s" % bad, replay_effects(bad))
        o.detail = "%d loaders + dispatch; native callees: %s" % (len(loaders), sorted(natives))
        if not any(k.startswith("value:") for k in kinds):
            raise core.HarnessError("reachability twin: no loader returned a value")
    return ob


def ob_tuple_headers(run, interp):
    """tuple arity classes beyond the explicit symbolic arities: 5, 255, 256 (boundary witnesses)"""
    from rpyc.core import brine

    def ob(o):
        o.symbolic = ["arity 5: every element a symbolic Bool; arity 255/256: last element a symbolic Bool, the rest None"]
        o.bounds = {"arities": [5, 255, 256]}
        saved = interp.loop_bound
        interp.loop_bound = 300
        try:
            for n in (5, 255, 256):
                def harness(c, n=n):
                    v = tuple(V.SymBool(c.fresh_bool("e")) if (i == n - 1 or n == 5) else None for i in range(n))
                    c.notes["v"] = v
                    return interp.call(brine.load, (interp.call(brine.dump, (v,)),))
                res, ex = explore(harness)
                for r in res:
                    if r.outcome == "abort" or any(e[0] == "int_too_long" for e in r.ctx.log):
                        continue
                    if r.outcome != "return":
                        run.replay(o, "tuple-arity:%d" % n, "tuple of %d items fails: %r" % (n, r.exc), replay_roundtrip("tuple(range(%d))" % n))
                        return
                    cond = P.same(r.ctx.notes["v"], r.value)
                    holds = cond is True or (cond is not False and core.with_ctx(r.ctx, r.ctx.must_hold, cond)[0])
                    if not holds:
                        run.replay(o, "tuple-arity:%d" % n, "tuple of %d items does not round-trip" % n, replay_roundtrip("tuple(range(%d))" % n))
                        return
                o.samples.append({"arity": n, "paths": len(res)})
        finally:
            interp.loop_bound = saved
    return ob


def translator_validation(run, interp):
    """the interpreter in concrete mode on the suite's own input (tests/test_brine.py)
    and on boundary values must agree with CPython"""
    from rpyc.core import brine

    def ob(o):
        cases = [(b"he", 7, "llo", 8, (), 900, None, True, Ellipsis, 18.2, 18.2j + 13, slice(1, 2, 3), frozenset([5, 6, 7]), NotImplemented, (1, 2)),
                 b"x" * 255, b"x" * 256, "é" * 130, -0x30, -0x31, 0x9f, 0xa0, 10 ** 300, float("-0.0"), float("inf"), (b"",) * 5, [1], {1: 2}]
        n = 0
        for v in cases:
            def f():
                try:
                    return ("ok", interp.call(brine.load, (interp.call(brine.dump, (v,)),)))
                except Exception as e:
                    return ("exc", type(e).__name__)
            got = core.run_concrete(f)
            try:
                exp = ("ok", brine.load(brine.dump(v)))
            except Exception as e:
                exp = ("exc", type(e).__name__)
            if got[0] != exp[0] or (got[0] == "ok" and not W.same(got[1], exp[1])) or (got[0] == "exc" and got[1] != exp[1]):
                raise core.HarnessError("translator validation: interpreter %r vs CPython %r on %r" % (got, exp, v))
            n += 1
        o.validated = n
        o.samples.append({"concrete_cases_agreeing_with_cpython": n})
    return ob


def main():
    run = Run("C04", level="other")
    interp = Interp()
    thorough = run.tier == "thorough"
    run.assumptions = [
        "struct pack/unpack of '!d'/'!dd' is bit-exact (format strings are read from the real Struct objects; other float codes are modelled as IEEE conversions and would be caught)",
        "str(int)/int(text) are inverse; ints whose decimal text exceeds sys.get_int_max_str_digits() are outside C04 by the property's wording",
        "utf-8 encode/decode are inverse on texts without lone surrogates; encode raises UnicodeEncodeError iff the text has a lone surrogate (unless the source passes an error handler)",
        "z3's floating-point theory has a single NaN: NaN payload preservation rests on the struct contract",
        "byte strings / utf-8 images of 2^32 bytes or more are outside the claim (the format's length field is 32 bit)",
    ]
    run.outside = ["nesting deeper than the stated bound", "RecursionError / MemoryError", "ints beyond the interpreter's digit limit"]
    run.obligation("T0_translator", "interpreter == CPython on the suite's brine input and boundary values", translator_validation(run, interp))
    run.obligation("O1_roundtrip_leaves", "load(dump(v)) is v (type-exact) for every leaf kind, all length classes",
                   ob_roundtrip(run, interp, 0, 0, True, "leaves"))
    d, a = (1, 3) if thorough else (1, 2)
    run.obligation("O2_roundtrip_nested", "round trip and dumpable()/dump() agreement for nested values incl. non-plain members",
                   ob_roundtrip(run, interp, d, a, True, "nested"))
    if thorough:
        # nesting 2 with arity 2 is several million paths; the thorough tier widens (arity 3) and deepens (nesting 2, arity 1) separately
        run.obligation("O2_roundtrip_deep", "the same for nesting depth 2 (containers of one element)", ob_roundtrip(run, interp, 2, 1, True, "deep"))
    run.obligation("O3_tuple_headers", "tuple header classes 5..255 and 256+", ob_tuple_headers(run, interp))
    run.obligation("O4_decode_bounded", "load() of arbitrary bytes raises or yields a plain value; no foreign callee",
                   ob_decode_bounded(run, interp, 4 if thorough else 3, 3))
    run.obligation("O5_decode_inductive", "each loader preserves 'plain or raises' (structural induction over nested loads)",
                   ob_decode_inductive(run, interp))
    run.note_encoded(interp)
    sys.exit(run.finish())


if __name__ == "__main__":
    main()
