"""Models of builtins / library calls for symbolic operands (engine S).

Each model is a *stub with a written contract*; harnesses copy the contracts of
the stubs they rely on into their evidence (`assumptions`).
"""
import builtins
import io
import struct
import sys
import zlib

import z3

from . import values as V
from .core import ctx, Unsupported
from .values import Sym, SymBool, SymInt, SymReal, SymStr
from .rope import Rope, RopeIO, Field, Slice, Lit, Base, int_of_rope, _t, _const, CONCRETIZERS

# uninterpreted helpers ------------------------------------------------------
DIGITS = z3.Function("digits", z3.IntSort(), z3.IntSort())       # len(str(int)), sign included
ULEN = z3.Function("utf8len", z3.StringSort(), z3.IntSort())    # len(text.encode('utf8'))
LOWER = z3.Function("lower", z3.StringSort(), z3.StringSort())
UPPER = z3.Function("upper", z3.StringSort(), z3.StringSort())


def no_surrogate_re():
    """regular expression of texts without lone surrogates"""
    lo = z3.Range(z3.StringVal("\\u{0}"), z3.StringVal("\\u{d7ff}"))
    hi = z3.Range(z3.StringVal("\\u{e000}"), z3.StringVal("\\u{2ffff}"))
    return z3.Star(z3.Union(lo, hi))


def has_surrogate(e):
    return z3.Not(z3.InRe(e, no_surrogate_re()))


# ----------------------------------------------------------------------------
# methods of symbolic values
# ----------------------------------------------------------------------------

class BoundModel(object):
    sym_model = True

    def __init__(self, fn, selfv, name):
        self.fn = fn
        self.selfv = selfv
        self.__name__ = name

    def __call__(self, *a, **k):
        return self.fn(self.selfv, *a, **k)


def sym_method(interp, obj, name):
    t = V.pytype_of(obj)
    tbl = _METHODS.get(t, {})
    fn = tbl.get(name)
    if fn is not None:
        return BoundModel(fn, obj, name)
    if name == "__class__":
        return t
    if any(name in k.__dict__ for k in t.__mro__):       # instance attribute lookup goes through the type's MRO
        if name == "__doc__":
            return t.__doc__
        raise Unsupported("method %s.%s on a symbolic value" % (t.__name__, name))
    raise AttributeError("%r object has no attribute %r" % (t.__name__, name))


def _str_arg(x, what):
    if V.pytype_of(x) is not str:
        raise TypeError("%s must be str, not %s" % (what, V.pytype_of(x).__name__))
    return V.term(x)


def str_startswith(s, prefix, *rest):
    if rest:
        raise Unsupported("startswith with start/end")
    if type(prefix) is tuple:
        return V.wrap(z3.Or(*[z3.PrefixOf(_str_arg(p, "prefix"), V.term(s)) for p in prefix]))
    return V.wrap(z3.PrefixOf(_str_arg(prefix, "startswith first arg"), V.term(s)))


def str_endswith(s, suffix, *rest):
    if rest:
        raise Unsupported("endswith with start/end")
    return V.wrap(z3.SuffixOf(_str_arg(suffix, "endswith first arg"), V.term(s)))


def str_lower(s):
    e = V.term(s)
    r = LOWER(e)
    c = ctx()
    c.add_fact(z3.And(LOWER(r) == r, z3.Length(r) >= 0))
    return SymStr(r)


def str_upper(s):
    e = V.term(s)
    r = UPPER(e)
    c = ctx()
    c.add_fact(UPPER(r) == r)
    return SymStr(r)


def str_encode(s, encoding="utf-8", errors="strict"):
    if str(encoding).lower().replace("-", "").replace("_", "") != "utf8":
        raise Unsupported("encoding %r" % (encoding,))
    e = V.term(s)
    c = ctx()
    if errors == "strict":
        if c.branch(has_surrogate(e), "lone-surrogate"):
            raise UnicodeEncodeError("utf-8", "\ud800", 0, 1, "surrogates not allowed")
    elif errors != "surrogatepass":
        raise Unsupported("error handler %r" % (errors,))
    return utf8_blob(e, errors)


def utf8_blob(e, errors="strict"):
    c = ctx()
    n = ULEN(e)
    c.add_fact(z3.And(n >= z3.Length(e), n <= 4 * z3.Length(e)))
    r = Rope.blob("utf8", n, origin=("utf8", e, errors), assume_nonneg=False)
    return r


def bytes_decode(r, encoding="utf-8", errors="strict"):
    if str(encoding).lower().replace("-", "").replace("_", "") != "utf8":
        raise Unsupported("encoding %r" % (encoding,))
    r = Rope.of(r)
    c = ctx()
    base = r.single_whole_blob()
    if base is not None and base.origin and base.origin[0] == "text":
        t, enc_err = base.origin[1], base.origin[2]
        if errors not in ("strict", "surrogatepass"):
            raise Unsupported("error handler %r" % (errors,))
        if enc_err == "surrogatepass" and errors == "strict":
            if c.branch(t.surr, "decode-surrogate"):
                raise UnicodeDecodeError("utf-8", b"\xed\xa0\x80", 0, 1, "invalid continuation byte")
        return t
    if base is not None and base.origin and base.origin[0] == "utf8":
        enc_err = base.origin[2]
        if enc_err == errors or enc_err == "strict":
            return V.wrap(base.origin[1])
        # encoded with surrogatepass, decoded strictly: fails iff it has surrogates
        if c.branch(has_surrogate(base.origin[1]), "decode-surrogate"):
            raise UnicodeDecodeError("utf-8", b"\xed\xa0\x80", 0, 1, "invalid continuation byte")
        return V.wrap(base.origin[1])
    if r.is_concrete():
        return r.to_bytes().decode(encoding, errors)
    # arbitrary bytes: either not valid utf-8, or some text
    if c.choose(2, "decode-arbitrary") == 0:
        raise UnicodeDecodeError("utf-8", b"\xff", 0, 1, "invalid start byte")
    c.log.append(("decode", r))
    t = SymText.fresh(c, "decoded")
    c.assume(t.ulen == r.length_term())
    return t


def _pyidx(k, ln):
    """python index normalisation term (no clamping)"""
    return z3.If(k < 0, k + ln, k)


def str_getitem(interp, s, key):
    e = V.term(s)
    ln = z3.Length(e)
    c = ctx()
    if type(key) is slice:
        if key.step is not None and key.step != 1:
            raise Unsupported("str slice with a step")
        a = z3.IntVal(0) if key.start is None else _t(key.start)
        b = ln if key.stop is None else _t(key.stop)
        a = z3.If(a < 0, z3.If(a + ln < 0, 0, a + ln), z3.If(a > ln, ln, a))
        b = z3.If(b < 0, z3.If(b + ln < 0, 0, b + ln), z3.If(b > ln, ln, b))
        return V.wrap(z3.SubString(e, a, z3.If(b - a < 0, 0, b - a)))
    k = _t(key)
    k = _pyidx(k, ln)
    if c.branch(z3.Or(k < 0, k >= ln), "str-idx-oob"):
        raise IndexError("string index out of range")
    return V.wrap(z3.SubString(e, k, 1))


def str_split(s, sep=None, maxsplit=-1):
    raise Unsupported("split on symbolic str")


def str_count(s, sub):
    raise Unsupported("count on symbolic str")


def str_format_m(s, *a, **k):
    return SymStr(ctx().fresh_str("fmt"))


def str_join(s, it):
    raise Unsupported("join on symbolic separator")


_METHODS = {
    str: dict(startswith=str_startswith, endswith=str_endswith, lower=str_lower, upper=str_upper,
              encode=str_encode, split=str_split, count=str_count, format=str_format_m, join=str_join),
    bytes: dict(decode=bytes_decode),
    int: {}, bool: {}, float: {},
}


def rope_getattr(obj, interp, name):
    fn = _METHODS[bytes].get(name)
    if fn is not None:
        return BoundModel(fn, obj, name)
    if hasattr(bytes, name):
        raise Unsupported("bytes.%s on a rope" % name)
    raise AttributeError("'bytes' object has no attribute %r" % name)


Rope.sym_getattr = rope_getattr


# ----------------------------------------------------------------------------
# builtins
# ----------------------------------------------------------------------------

def m_type(interp, *args):
    if len(args) == 1:
        return V.pytype_of(args[0])
    return type(*args)


def m_isinstance(interp, obj, cls):
    if isinstance(obj, Sym):
        t = V.pytype_of(obj)
        if isinstance(cls, tuple):
            return any(m_isinstance(interp, obj, c) for c in cls)
        return issubclass(t, cls)
    return isinstance(obj, cls)


def m_len(interp, obj):
    if isinstance(obj, SymStr):
        return V.wrap(z3.Length(obj.e))
    if isinstance(obj, Rope):
        return obj.length()
    h = getattr(obj, "sym_len", None)
    if h is not None:
        return h()
    if isinstance(obj, Sym):
        raise TypeError("object of type %r has no len()" % V.pytype_of(obj).__name__)
    return len(obj)


class SymText(Sym):
    """An opaque `str` value: no solver string is built (z3's sequence solver
    does not terminate on texts hundreds of characters long, and C04/C05/C19
    never look inside a text).  Known about it: its length in characters, the
    length of its utf-8 image, whether it contains a lone surrogate, and its
    origin (e.g. the decimal rendering of an int)."""
    __slots__ = ("name", "clen", "ulen", "surr", "origin")
    pytype = str

    def __init__(self, name, clen, ulen, surr, origin=None):
        self.name = name
        self.clen = clen
        self.ulen = ulen
        self.surr = surr
        self.origin = origin

    @staticmethod
    def fresh(c, hint="text", max_chars=None):
        name = c._name(hint)
        clen = z3.Int(name + ".chars")
        ulen = z3.Int(name + ".utf8len")
        surr = z3.Bool(name + ".has_surrogate")
        c.assume(z3.And(clen >= 0, ulen >= clen, ulen <= 4 * clen, z3.Implies(surr, z3.And(clen >= 1, ulen >= 3)),
                        clen <= (max_chars if max_chars is not None else (1 << 30) - 1)))
        return SymText(name, clen, ulen, surr)

    @staticmethod
    def digits(n):
        nd = DIGITS(n)
        return SymText("digits", nd, nd, z3.BoolVal(False), ("digits", n))

    def truth_term(self):
        return self.clen > 0

    def sym_len(self):
        return V.wrap(self.clen)

    @staticmethod
    def sym_getattr(obj, interp, name):
        if name == "encode":
            return BoundModel(text_encode, obj, name)
        if hasattr(str, name):
            raise Unsupported("str.%s on an opaque text" % name)
        raise AttributeError("'str' object has no attribute %r" % name)

    def sym_compare(self, op, other, reflected):
        if op not in ("==", "!="):
            raise Unsupported("ordering of opaque texts")
        if other is self:
            return op == "=="
        if isinstance(other, SymText) and self.origin and other.origin and self.origin[0] == other.origin[0] == "digits":
            r = V.wrap(self.origin[1] == other.origin[1])
            return r if op == "==" else V.unaryop("not", r)
        if V.pytype_of(other) is not str:
            return op == "!="
        if type(other) is str and other == "":
            r = V.wrap(self.clen == 0)
            return r if op == "==" else V.unaryop("not", r)
        if isinstance(other, SymText) and not self.origin and not other.origin:
            # two different opaque texts: equality is an uninterpreted symmetric predicate
            n1, n2 = sorted([self.name, other.name])
            e = z3.Bool("text_eq(%s,%s)" % (n1, n2))
            ctx().assume(z3.And(z3.Implies(e, z3.And(self.clen == other.clen, self.ulen == other.ulen, self.surr == other.surr)),
                                  z3.Implies(z3.And(self.clen == 0, other.clen == 0), e)))
            r = V.wrap(e)
            return r if op == "==" else V.unaryop("not", r)
        raise Unsupported("equality of distinct opaque texts")

    def concretize(self, model):
        if self.origin and self.origin[0] == "digits":
            return str(model.eval(self.origin[1], model_completion=True).as_long())
        n = model.eval(self.clen, model_completion=True).as_long()
        u = model.eval(self.ulen, model_completion=True).as_long()
        surr = z3.is_true(model.eval(self.surr, model_completion=True))
        if n > 1 << 22:
            raise Unsupported("counterexample needs a %d-character text" % n)
        out = []
        if surr:
            out.append("\ud800")
            n -= 1
            u -= 3
        # n characters totalling u bytes, n <= u <= 4n
        for i in range(n):
            left = n - i - 1
            w = max(1, min(4, u - left))
            out.append({1: "a", 2: "\xe9", 3: "\u20ac", 4: "\U0001f600"}[w])
            u -= w
        return "".join(out)


def text_encode(t, encoding="utf-8", errors="strict"):
    if str(encoding).lower().replace("-", "").replace("_", "") != "utf8":
        raise Unsupported("encoding %r" % (encoding,))
    c = ctx()
    if errors == "strict":
        if c.branch(t.surr, "lone-surrogate"):
            raise UnicodeEncodeError("utf-8", "\ud800", 0, 1, "surrogates not allowed")
    elif errors != "surrogatepass":
        raise Unsupported("error handler %r" % (errors,))
    return Rope.blob("utf8", t.ulen, origin=("text", t, errors), assume_nonneg=False)


_DIGIT_AXIOM_KS = (1, 2, 3, 4, 254, 255, 256, 257)


def digits_axioms(n):
    nd = DIGITS(n)
    ks = set(_DIGIT_AXIOM_KS)
    from . import INT_MAX_STR_DIGITS as lim
    if lim:
        ks.update((lim - 1, lim, lim + 1, lim + 2))
    ax = [nd >= 1]
    for k in sorted(ks):
        # len(str(n)) <= k  <=>  -10^(k-1) < n < 10^k
        ax.append((nd <= k) == z3.And(n > -(10 ** (k - 1)), n < 10 ** k))
    return z3.And(*ax)


def int_digits_check(n_term):
    """str(int) contract: raises ValueError when the decimal rendering exceeds
    the interpreter's digit limit; otherwise an opaque digit text."""
    c = ctx()
    c.add_fact(digits_axioms(n_term))
    from . import INT_MAX_STR_DIGITS as lim
    if lim:
        if c.branch(z3.Or(n_term >= 10 ** lim, n_term <= -(10 ** lim)), "int-max-str-digits"):
            c.log.append(("int_too_long", n_term))
            raise ValueError("Exceeds the limit (%d digits) for integer string conversion" % lim)
    return SymText.digits(n_term)


def m_str(interp, *args, **kwargs):
    if not args:
        return ""
    obj = args[0]
    if len(args) > 1 or kwargs:
        # str(bytes, encoding[, errors])
        if V.pytype_of(obj) is bytes:
            return bytes_decode(Rope.of(obj), *args[1:], **kwargs)
        if isinstance(obj, Sym):
            raise TypeError("decoding to str: need a bytes-like object, %s found" % V.pytype_of(obj).__name__)
        return str(*args, **kwargs)
    if isinstance(obj, SymStr):
        return obj
    if isinstance(obj, SymInt):
        return int_digits_check(obj.e)
    if isinstance(obj, SymText):
        return obj
    if isinstance(obj, SymBool):
        return V.wrap(z3.If(obj.e, z3.StringVal("True"), z3.StringVal("False")))
    if isinstance(obj, Sym) or interp.has_sym(obj):
        return SymStr(ctx().fresh_str("str"))
    h = interp_dunder(interp, obj, "__str__")
    if h is not None:
        return h()
    return str(obj)


def interp_dunder(interp, obj, name):
    """bound interpreted special method of a concrete object, if its class
    defines one in interpreted code"""
    from .interp import IFunc
    import types
    for k in type(obj).__mro__:
        if name in k.__dict__:
            d = k.__dict__[name]
            if isinstance(d, IFunc) or (isinstance(d, types.FunctionType) and interp.should_interpret(d)):
                return lambda *a, **kw: interp.call(d, (obj,) + a, kw)
            return None
    return None


def m_repr(interp, obj):
    if isinstance(obj, Sym) or interp.has_sym(obj):
        return SymStr(ctx().fresh_str("repr"))
    return repr(obj)


def m_bytes(interp, *args, **kwargs):
    if not args:
        return b""
    obj = args[0]
    if V.pytype_of(obj) is str and (len(args) > 1 or kwargs):
        if isinstance(obj, SymText):
            return text_encode(obj, *args[1:], **kwargs)
        if isinstance(obj, SymStr):
            return str_encode(obj, *args[1:], **kwargs)
        return bytes(*args, **kwargs)
    if isinstance(obj, Rope):
        return obj
    if isinstance(obj, Sym):
        raise Unsupported("bytes(%s)" % V.pytype_of(obj).__name__)
    interp.require_concrete(bytes, args, kwargs)
    return bytes(*args, **kwargs)


def m_int(interp, *args, **kwargs):
    if not args:
        return 0
    obj = args[0]
    c = ctx()
    if len(args) == 1 and not kwargs:
        if isinstance(obj, SymInt):
            return obj
        if isinstance(obj, SymBool):
            return V.wrap(V.num_term(obj))
        if isinstance(obj, Rope):
            base = obj.single_whole_blob()
            if base is not None and base.origin and base.origin[0] == "text" and base.origin[1].origin \
                    and base.origin[1].origin[0] == "digits":
                # int(str(n).encode()) == n ; re-parsing is subject to the same digit limit
                return V.wrap(base.origin[1].origin[1])
            if c.choose(2, "int-of-bytes") == 0:
                raise ValueError("invalid literal for int() with base 10")
            c.log.append(("int_of_bytes", obj))
            return SymInt(c.fresh_int("parsed"))
        if isinstance(obj, SymText):
            if obj.origin and obj.origin[0] == "digits":
                return V.wrap(obj.origin[1])
            if c.choose(2, "int-of-str") == 0:
                raise ValueError("invalid literal for int() with base 10")
            return SymInt(c.fresh_int("parsed"))
        if isinstance(obj, SymStr):
            if c.choose(2, "int-of-str") == 0:
                raise ValueError("invalid literal for int() with base 10")
            return SymInt(c.fresh_int("parsed"))
        if isinstance(obj, Sym):
            raise Unsupported("int(%s)" % V.pytype_of(obj).__name__)
    interp.require_concrete(int, args, kwargs)
    return int(*args, **kwargs)


def m_bool(interp, *args):
    if not args:
        return False
    v = args[0]
    if isinstance(v, Sym):
        return V.wrap(V.truth_term(v))
    return bool(v)


def m_tuple(interp, *args):
    if not args:
        return ()
    return tuple(interp.iterate(args[0]))


def m_list(interp, *args):
    if not args:
        return []
    return list(interp.iterate(args[0]))


def m_dict(interp, *args, **kwargs):
    d = {}
    if args:
        src = args[0]
        if isinstance(src, dict):
            d.update(src)
        else:
            for item in interp.iterate(src):
                k, v = interp.unpack(item, 2)
                if isinstance(k, Sym):
                    raise Unsupported("dict() with a symbolic key")
                d[k] = v
    d.update(kwargs)
    return d


def m_frozenset(interp, *args):
    if not args:
        return frozenset()
    items = list(interp.iterate(args[0]))
    if any(isinstance(x, Sym) or interp.has_sym(x) for x in items):
        return SymFrozenset(items)
    return frozenset(items)


def m_set(interp, *args):
    if not args:
        return set()
    items = list(interp.iterate(args[0]))
    if any(isinstance(x, Sym) or interp.has_sym(x) for x in items):
        raise Unsupported("set() of symbolic members")
    return set(items)


class SymFrozenset(Sym):
    """a frozenset whose members are (partly) symbolic: kept as the list of its
    source items; equality is conservative (same items, same order)"""
    __slots__ = ("items",)
    pytype = frozenset

    def __init__(self, items):
        self.items = list(items)

    def sym_iter(self):
        return iter(self.items)

    def truth_term(self):
        return z3.BoolVal(bool(self.items))

    def concretize(self, model):
        return frozenset(V.concretize(x, model) for x in self.items)


def m_slice(interp, *args):
    if any(isinstance(a, Sym) or interp.has_sym(a) for a in args):
        return SymSlice(*args)
    return slice(*args)


class SymSlice(Sym):
    __slots__ = ("start", "stop", "step")
    pytype = slice

    def __init__(self, *args):
        if len(args) == 1:
            self.start, self.stop, self.step = None, args[0], None
        elif len(args) == 2:
            self.start, self.stop, self.step = args[0], args[1], None
        else:
            self.start, self.stop, self.step = args

    @staticmethod
    def sym_getattr(obj, interp, name):
        if name in ("start", "stop", "step"):
            return getattr(obj, name)
        return sym_method(interp, obj, name)

    def truth_term(self):
        return z3.BoolVal(True)

    def concretize(self, model):
        return slice(V.concretize(self.start, model), V.concretize(self.stop, model), V.concretize(self.step, model))


def m_complex(interp, *args):
    if any(isinstance(a, Sym) for a in args):
        return SymComplex(*args)
    return complex(*args)


def _fp(x):
    """IEEE-754 binary64 term of a float-like operand"""
    if isinstance(x, SymFloat):
        return x.e
    if type(x) in (int, float, bool):
        return z3.FPVal(float(x), F64)
    raise Unsupported("floating-point arithmetic with %s" % type(x).__name__)


def _cpair(x):
    """(real, imag) terms of a float or complex operand, coerced the way CPython coerces a float to complex"""
    if isinstance(x, SymComplex):
        return _fp(x.real), _fp(x.imag)
    if type(x) is complex:
        return z3.FPVal(x.real, F64), z3.FPVal(x.imag, F64)
    return _fp(x), z3.FPVal(0.0, F64)


def _float_binop(op, a, b):
    """+, -, * on floats / complexes with CPython's (round-to-nearest-even, component-wise) semantics"""
    rm = z3.RNE()
    cplx = any(isinstance(x, SymComplex) or type(x) is complex for x in (a, b))
    if not cplx:
        f = {"+": z3.fpAdd, "-": z3.fpSub, "*": z3.fpMul}.get(op)
        if f is None:
            return NotImplemented
        return SymFloat(f(rm, _fp(a), _fp(b)))
    (ar, ai), (br, bi) = _cpair(a), _cpair(b)
    if op == "+":
        return SymComplex(SymFloat(z3.fpAdd(rm, ar, br)), SymFloat(z3.fpAdd(rm, ai, bi)))
    if op == "-":
        return SymComplex(SymFloat(z3.fpSub(rm, ar, br)), SymFloat(z3.fpSub(rm, ai, bi)))
    if op == "*":
        # _Py_c_prod: real = ar*br - ai*bi ; imag = ar*bi + ai*br
        return SymComplex(SymFloat(z3.fpSub(rm, z3.fpMul(rm, ar, br), z3.fpMul(rm, ai, bi))),
                          SymFloat(z3.fpAdd(rm, z3.fpMul(rm, ar, bi), z3.fpMul(rm, ai, br))))
    return NotImplemented


class SymFloat(Sym):
    """a Python float as an IEEE-754 binary64 term"""
    __slots__ = ("e",)
    pytype = float

    def __init__(self, e):
        self.e = e

    def sym_binop(self, op, other, refl):
        if not (isinstance(other, (SymFloat, SymComplex)) or type(other) in (int, float, complex)):
            return NotImplemented
        return _float_binop(op, other, self) if refl else _float_binop(op, self, other)

    def truth_term(self):
        return z3.Not(z3.fpIsZero(self.e))

    def concretize(self, model):
        v = model.eval(self.e, model_completion=True)
        return fp_to_py(v)


def fp_to_py(v):
    if v.isNaN():
        return float("nan")
    if v.isInf():
        return float("-inf") if v.isNegative() else float("inf")
    bits = (int(bool(v.sign())) << 63) | ((v.exponent_as_long(True)) << 52) | v.significand_as_long()
    return struct.unpack("!d", struct.pack("!Q", bits))[0]


class SymComplex(Sym):
    __slots__ = ("real", "imag")
    pytype = complex

    def __init__(self, real=0.0, imag=0.0):
        self.real = real
        self.imag = imag

    def sym_binop(self, op, other, refl):
        if not (isinstance(other, (SymFloat, SymComplex)) or type(other) in (int, float, complex)):
            return NotImplemented
        return _float_binop(op, other, self) if refl else _float_binop(op, self, other)

    @staticmethod
    def sym_getattr(obj, interp, name):
        if name in ("real", "imag"):
            return getattr(obj, name)
        return sym_method(interp, obj, name)

    def truth_term(self):
        raise Unsupported("truth of symbolic complex")

    def concretize(self, model):
        return complex(V.concretize(self.real, model), V.concretize(self.imag, model))


def m_hasattr(interp, obj, name):
    try:
        m_getattr(interp, obj, name)
    except AttributeError:
        return False
    return True


def m_getattr(interp, obj, name, *default):
    h = getattr(type(obj), "sym_getattr_dyn", None)
    if h is not None:
        return h(obj, interp, name, *default)
    if isinstance(name, Sym):
        if not isinstance(name, SymStr):
            raise TypeError("attribute name must be string, not %r" % V.pytype_of(name).__name__)
        if isinstance(obj, Sym):
            raise Unsupported("getattr of a symbolic value with a symbolic name")
        # enumerate the attribute names of the concrete object
        names = sorted(set(dir(obj)))
        conds = [name.e == V.pystr_to_z3(n) for n in names]
        none = z3.Not(z3.Or(*conds)) if conds else z3.BoolVal(True)
        i = ctx().decide(conds + [none], "getattr-name")
        if i == len(names):
            if default:
                return default[0]
            raise AttributeError(name)
        name = names[i]
    try:
        return interp.getattr(obj, name)
    except AttributeError:
        if default:
            return default[0]
        raise


def m_setattr(interp, obj, name, value):
    h = getattr(type(obj), "sym_setattr_dyn", None)
    if h is not None:
        return h(obj, interp, name, value)
    if isinstance(name, Sym):
        raise Unsupported("setattr with a symbolic name on a concrete object")
    return interp.setattr(obj, name, value)


def m_delattr(interp, obj, name):
    h = getattr(type(obj), "sym_delattr_dyn", None)
    if h is not None:
        return h(obj, interp, name)
    if isinstance(name, Sym):
        raise Unsupported("delattr with a symbolic name on a concrete object")
    return interp.delattr(obj, name)


def m_callable(interp, obj):
    if isinstance(obj, Sym):
        return False
    return callable(obj)


def m_hash(interp, obj):
    if isinstance(obj, Sym):
        raise Unsupported("hash of a symbolic value")
    return hash(obj)


def m_min(interp, *args, **kw):
    return _minmax(interp, "<", args, kw)


def m_max(interp, *args, **kw):
    return _minmax(interp, ">", args, kw)


def _minmax(interp, op, args, kw):
    if kw:
        raise Unsupported("min/max with key/default")
    items = list(interp.iterate(args[0])) if len(args) == 1 else list(args)
    if not items:
        raise ValueError("empty sequence")
    if not any(isinstance(x, Sym) for x in items):
        return (min if op == "<" else max)(items)
    # merged (ite) result rather than a fork: keeps clocks/lengths on one path
    best = items[0]
    for x in items[1:]:
        cond = V.compare(op, x, best)
        if cond is True:
            best = x
        elif cond is False:
            pass
        else:
            tb, tx = V.num_term(best), V.num_term(x)
            tb, tx = V._real_if_needed(None, None, tb, tx)
            best = V.wrap(z3.If(cond.e, tx, tb))
    return best


def m_iter(interp, obj, *rest):
    if rest:
        raise Unsupported("iter(callable, sentinel)")
    return iter(interp.iterate(obj))


def m_all(interp, it):
    for x in interp.iterate(it):
        if not interp.truth(x):
            return False
    return True


def m_any(interp, it):
    for x in interp.iterate(it):
        if interp.truth(x):
            return True
    return False


def m_sorted(interp, it, key=None, reverse=False):
    items = list(interp.iterate(it))
    if key is not None:
        keyed = [(interp.call(key, (x,)), x) for x in items]
    else:
        keyed = [(x, x) for x in items]
    # insertion sort with solver-decided comparisons (stable, like sorted())
    out = []
    for k, x in keyed:
        pos = len(out)
        while pos > 0 and interp.truth(V.compare("<", k, out[pos - 1][0])):
            pos -= 1
        out.insert(pos, (k, x))
    res = [x for _, x in out]
    if reverse:
        res.reverse()
    return res


def m_dict_get(interp, d, key, default=None):
    if isinstance(key, Sym) or interp.has_sym(key):
        try:
            return interp.dict_lookup(d, key)
        except KeyError:
            return default
    return d.get(key, default)


def m_dict_pop(interp, d, key, *default):
    if isinstance(key, Sym) or interp.has_sym(key):
        try:
            k = interp.dict_key(d, key)
        except KeyError:
            if default:
                return default[0]
            raise
        return d.pop(k)
    return d.pop(key, *default)


class SymRange(object):
    """range() with a symbolic bound: iteration is unrolled under the
    interpreter's loop bound (unwinding assertion)"""

    def __init__(self, interp, start, stop, step=1):
        self.interp = interp
        self.start = start
        self.stop = stop
        self.step = step

    def sym_iter(self):
        i = self.start
        n = 0
        while self.interp.truth(V.compare("<", i, self.stop)):
            n += 1
            if n > self.interp.loop_bound:
                self.interp.bound_hit("range() with a symbolic bound needs more than %d iterations" % self.interp.loop_bound)
            yield i
            i = i + self.step

    def sym_len(self):
        d = V.binop("-", self.stop, self.start)
        return m_max(self.interp, 0, d)


def m_range(interp, *args):
    if any(isinstance(a, Sym) for a in args):
        if len(args) == 1:
            return SymRange(interp, 0, args[0])
        if len(args) == 2:
            return SymRange(interp, args[0], args[1])
        if len(args) == 3 and type(args[2]) is int and args[2] > 0:
            return SymRange(interp, args[0], args[1], args[2])
        raise Unsupported("range() with a symbolic or non-positive step")
    return range(*args)


def m_super(interp, *args):
    return super(*args)


# ----------------------------------------------------------------------------
# struct / BytesIO / zlib
# ----------------------------------------------------------------------------

_INT_CODES = {"B": 1, "H": 2, "L": 4, "I": 4, "Q": 8}
_FP_CODES = {"d": (11, 53, 8), "f": (8, 24, 4), "e": (5, 11, 2)}
F64 = z3.Float64()


def _parse_fmt(fmt):
    if isinstance(fmt, bytes):
        fmt = fmt.decode()
    if not fmt or fmt[0] not in "!>":
        raise Unsupported("struct format %r (only network/big-endian formats are modelled)" % (fmt,))
    codes = []
    for ch in fmt[1:]:
        if ch in _INT_CODES or ch in _FP_CODES:
            codes.append(ch)
        else:
            raise Unsupported("struct code %r" % ch)
    return codes


def struct_pack(interp, st, *vals):
    if not any(isinstance(v, Sym) for v in vals):
        return st.pack(*vals)
    codes = _parse_fmt(st.format)
    if len(codes) != len(vals):
        raise struct.error("pack expected %d items for packing (got %d)" % (len(codes), len(vals)))
    c = ctx()
    segs = []
    for code, v in zip(codes, vals):
        if code in _INT_CODES:
            w = _INT_CODES[code]
            t = V.pytype_of(v)
            if t not in (int, bool):
                raise struct.error("required argument is not an integer")
            e = V.num_term(v)
            if c.branch(z3.Or(e < 0, e >= 256 ** w), "struct-range"):
                raise struct.error("'%s' format requires 0 <= number <= %d" % (code, 256 ** w - 1))
            segs.append(Field(w, e))
        else:
            eb, sb, w = _FP_CODES[code]
            if isinstance(v, SymFloat):
                fe = v.e
            elif type(v) in (float, int):
                fe = z3.FPVal(float(v), F64)
            else:
                raise struct.error("required argument is not a float")
            if code == "d":
                img = fe
            else:
                img = z3.fpToFP(z3.RNE(), fe, z3.FPSort(eb, sb))
                if code != "d":
                    # overflow of a finite double raises OverflowError in CPython's struct
                    if c.branch(z3.And(z3.Not(z3.fpIsInf(fe)), z3.fpIsInf(img)), "fp-overflow"):
                        raise OverflowError("float too large to pack with %s format" % code)
            base = Base("fp", w, origin=("fp", img, code))
            segs.append(Slice(base, 0, w))
    return Rope(segs)


def struct_unpack(interp, st, data):
    if not isinstance(data, Rope):
        return st.unpack(data)
    codes = _parse_fmt(st.format)
    c = ctx()
    if c.branch(data.length_term() != st.size, "struct-size"):
        raise struct.error("unpack requires a buffer of %d bytes" % st.size)
    out = []
    rest = data
    for code in codes:
        if code in _INT_CODES:
            w = _INT_CODES[code]
            part, rest = rest.split_at(w)
            out.append(V.wrap(int_of_rope(part, w)))
        else:
            eb, sb, w = _FP_CODES[code]
            part, rest = rest.split_at(w)
            base = part.single_whole_blob()
            if base is not None and base.origin and base.origin[0] == "fp" and base.origin[2] == code:
                img = base.origin[1]
                out.append(SymFloat(img if code == "d" else z3.fpToFP(z3.RNE(), img, F64)))
            elif part.is_concrete():
                out.append(struct.unpack("!" + code, part.to_bytes())[0])
            else:
                f = z3.FP(c._name("unpacked"), F64)
                c.log.append(("unpack_float", part))
                out.append(SymFloat(f))
    return tuple(out)


def m_bytesio(interp, *args):
    if args and isinstance(args[0], Rope):
        return RopeIO(args[0])
    return io.BytesIO(*args)


class ZlibError(zlib.error):
    pass


def zlib_compress(interp, data, *a, **k):
    if not isinstance(data, Rope):
        return zlib.compress(data, *a, **k)
    c = ctx()
    n = c.fresh_int("zlen")
    c.add_fact(z3.And(n >= 1, n <= data.length_term() + data.length_term() / 1000 + 64))
    c.log.append(("zlib.compress", data))
    return Rope.blob("z", n, origin=("z", data), assume_nonneg=False)


def zlib_decompress(interp, data, *a, **k):
    if not isinstance(data, Rope):
        return zlib.decompress(data, *a, **k)
    base = data.single_whole_blob()
    c = ctx()
    c.log.append(("zlib.decompress", data))
    if base is not None and base.origin and base.origin[0] == "z":
        return base.origin[1]
    if c.choose(2, "zlib-garbage") == 0:
        raise zlib.error("Error -3 while decompressing data")
    n = c.fresh_int("inflated")
    c.add_fact(n >= 0)
    return Rope.blob("inflated", n, assume_nonneg=False).maybe_concrete()


def m_bytes_join(interp, sep, items):
    items = list(interp.iterate(items))
    if not any(isinstance(x, Rope) for x in items) and not isinstance(sep, Rope):
        return sep.join(items)
    segs = []
    sep = Rope.of(sep)
    for i, x in enumerate(items):
        if i:
            segs.extend(sep.segs)
        segs.extend(Rope.of(x).segs)
    return Rope(segs).maybe_concrete()


# ----------------------------------------------------------------------------
# installation
# ----------------------------------------------------------------------------

SYM_TOLERANT = [enumerate, zip, reversed, print, map, filter, id, next]


def m_memoryview(interp, obj):
    # a read-only view of a symbolic byte string slices, measures and tests for emptiness exactly as the byte string does
    if isinstance(obj, Rope):
        return obj
    interp.require_concrete(memoryview, (obj,), {})
    return memoryview(obj)


def install(interp):
    m = interp.models
    m[hasattr] = m_hasattr
    m[getattr] = m_getattr
    m[setattr] = m_setattr
    m[delattr] = m_delattr
    m[isinstance] = m_isinstance
    m[len] = m_len
    m[repr] = m_repr
    m[callable] = m_callable
    m[hash] = m_hash
    m[min] = m_min
    m[max] = m_max
    m[iter] = m_iter
    m[all] = m_all
    m[any] = m_any
    m[sorted] = m_sorted
    tm = interp.type_models
    tm[type] = m_type
    tm[str] = m_str
    tm[bytes] = m_bytes
    tm[memoryview] = m_memoryview
    tm[int] = m_int
    tm[bool] = m_bool
    tm[tuple] = m_tuple
    tm[list] = m_list
    tm[dict] = m_dict
    tm[frozenset] = m_frozenset
    tm[set] = m_set
    tm[slice] = m_slice
    tm[complex] = m_complex
    tm[io.BytesIO] = m_bytesio
    mm = interp.method_models
    mm[(struct.Struct, "pack")] = struct_pack
    mm[(struct.Struct, "unpack")] = struct_unpack
    mm[(bytes, "join")] = m_bytes_join
    mm[(dict, "get")] = m_dict_get
    mm[(dict, "pop")] = m_dict_pop
    tm[range] = m_range
    m[zlib.compress] = zlib_compress
    m[zlib.decompress] = zlib_decompress
    import itertools as _it

    def m_islice(interp_, it, *a):
        if not (isinstance(it, Sym) or any(isinstance(x, Sym) for x in a)):
            return _it.islice(it, *a)
        if len(a) != 1:
            raise Unsupported("islice with start/step on symbolic operands")
        n = a[0]
        out = []
        src = iter(interp_.iterate(it))
        i = 0
        while interp_.truth(V.compare("<", i, n)):       # like islice: never pulls more than n items from the source
            try:
                out.append(next(src))
            except StopIteration:
                break
            i += 1
            if i > interp_.loop_bound:
                interp_.bound_hit("islice with a symbolic count needs more than %d steps" % interp_.loop_bound)
        return iter(out)
    tm[_it.islice] = m_islice
    import inspect as _inspect
    m[_inspect.ismodule] = lambda interp, x: False if isinstance(x, Sym) else _inspect.ismodule(x)
    m[_inspect.isclass] = lambda interp, x: False if isinstance(x, Sym) else _inspect.isclass(x)
    for f in SYM_TOLERANT:
        w = (lambda fn: (lambda interp, *a, **k: fn(*a, **k)))(f)
        if isinstance(f, type):
            tm[f] = w
        else:
            m[f] = w


# ----------------------------------------------------------------------------
# concretizers of blobs with an origin (used when building replay inputs)
# ----------------------------------------------------------------------------

def _conc_utf8(base, model):
    s = V.z3str_to_py(model.eval(base.origin[1], model_completion=True))
    return s.encode("utf-8", "surrogatepass")


def _conc_text(base, model):
    return base.origin[1].concretize(model).encode("utf-8", "surrogatepass")


def _conc_fp(base, model):
    v = fp_to_py(model.eval(base.origin[1], model_completion=True))
    return struct.pack("!" + base.origin[2], v)


def _conc_z(base, model):
    inner = base.origin[1]
    data = inner.concretize(model) if isinstance(inner, Rope) else inner
    return zlib.compress(data, 1)


CONCRETIZERS["utf8"] = _conc_utf8
CONCRETIZERS["text"] = _conc_text
CONCRETIZERS["fp"] = _conc_fp
CONCRETIZERS["z"] = _conc_z
