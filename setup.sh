#!/bin/bash
# Builds /verif/.venv: an overlay venv on /venv (py3.12, sees rpyc's own deps and /repo)
# plus z3-solver, cvc5 and crosshair-tool from the offline wheelhouse. Idempotent.
set -e
cd "$(dirname "$0")"
V=.venv
if [ -x $V/bin/python ] && $V/bin/python -c "import z3, jsonschema" 2>/dev/null; then
  exit 0
fi
rm -rf $V
/venv/bin/python -m venv $V
SP=$($V/bin/python -c "import sysconfig; print(sysconfig.get_paths()['purelib'])")
printf "import site; site.addsitedir('/venv/lib/python3.12/site-packages')\n/repo\n" > $SP/_overlay.pth
export PIP_NO_INDEX=1
$V/bin/pip install -q --no-index --find-links /opt/veriftools/wheels z3-solver crosshair-tool cvc5 jsonschema >/dev/null 2>&1 || \
$V/bin/pip install -q --no-index --find-links /opt/veriftools/wheels z3-solver jsonschema
$V/bin/python -c "import z3; print('z3', z3.get_version_string())"
