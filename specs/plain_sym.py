"""Symbolic plain-value oracle helpers (C03, C04, C19): generation of symbolic
plain immutable values, type-exact structural equality as a solver term, the
'plain immutable value' predicate, and the *reference* brine encoder over ropes.
Written from the property text / published format; never calls rpyc.
"""
import collections
import enum
import types as _types

import z3

from engine import values as V
from engine.core import ctx, Unsupported
from engine.models import SymFloat, SymComplex, SymSlice, SymFrozenset, SymText, ULEN, DIGITS, utf8_blob
from engine.rope import Rope, Field, Lit
from engine.values import Sym, SymBool, SymInt, SymStr
from . import ref_wire as W

F64 = z3.Float64()

LEAF_KINDS = ["none", "notimpl", "ellipsis", "bool", "int", "float", "complex", "bytes", "str"]
CONTAINER_KINDS = ["tuple", "frozenset", "slice"]


class Color(enum.IntEnum):
    RED = 1


Point = collections.namedtuple("Point", "x y")


class MyStr(str):
    pass


class MyInt(int):
    pass


class MyBytes(bytes):
    pass


class MyTuple(tuple):
    pass


class MyFrozenset(frozenset):
    pass


def _fn():
    pass


class _Cls(object):
    pass


def nonplain_witnesses():
    """one concrete witness per non-plain type tag (fresh objects each call)"""
    return [
        ("list", [1, 2]), ("dict", {"a": 1}), ("set", {1}), ("bytearray", bytearray(b"ab")),
        ("function", _fn), ("class", _Cls), ("module", _types), ("instance", _Cls()),
        ("enum_member", Color.RED), ("namedtuple", Point(1, 2)), ("str_subclass", MyStr("s")),
        ("int_subclass", MyInt(5)), ("bytes_subclass", MyBytes(b"b")), ("tuple_subclass", MyTuple((1,))),
        ("frozenset_subclass", MyFrozenset([1])), ("range", range(3)), ("memoryview", memoryview(b"x")),
    ]


def gen_leaf(c, kind, max_bytes_len=None):
    if kind == "none":
        return None
    if kind == "notimpl":
        return NotImplemented
    if kind == "ellipsis":
        return Ellipsis
    if kind == "bool":
        return SymBool(c.fresh_bool("vb"))
    if kind == "int":
        return SymInt(c.fresh_int("vi"))
    if kind == "float":
        return SymFloat(z3.FP(c._name("vf"), F64))
    if kind == "complex":
        return SymComplex(SymFloat(z3.FP(c._name("vre"), F64)), SymFloat(z3.FP(c._name("vim"), F64)))
    if kind == "bytes":
        n = c.fresh_int("blen")
        hi = (1 << 32) if max_bytes_len is None else max_bytes_len + 1
        c.assume(z3.And(n >= 0, n < hi))
        return Rope.blob("vbytes", n, assume_nonneg=False)
    if kind == "str":
        return SymText.fresh(c, "vs", max_chars=max_bytes_len)
    raise ValueError(kind)


def gen_value(c, depth, max_arity=2, leaf_kinds=LEAF_KINDS, with_nonplain=False, label="v"):
    """a symbolic value: kind chosen nondeterministically (exhaustive), content symbolic"""
    kinds = list(leaf_kinds)
    if depth > 0:
        kinds += CONTAINER_KINDS
    wit = nonplain_witnesses() if with_nonplain else []
    k = c.choose(len(kinds) + len(wit), label + "-kind")
    if k >= len(kinds):
        return wit[k - len(kinds)][1]
    kind = kinds[k]
    if kind in LEAF_KINDS:
        return gen_leaf(c, kind)
    if kind == "tuple":
        n = c.choose(max_arity + 1, label + "-arity")
        return tuple(gen_value(c, depth - 1, max_arity, leaf_kinds, with_nonplain, label + str(i)) for i in range(n))
    if kind == "frozenset":
        n = c.choose(max_arity + 1, label + "-fsize")
        items = [gen_value(c, depth - 1, max_arity, leaf_kinds, with_nonplain, label + "f" + str(i)) for i in range(n)]
        # members of a set are hashable and pairwise different
        for x in items:
            if not isinstance(x, Sym):
                try:
                    hash(x)
                except TypeError:
                    c.assume(False)
        for i in range(len(items)):
            for j in range(i):
                try:
                    eq = same(items[i], items[j])
                except (Unsupported, TypeError):
                    eq = False
                if eq is True:
                    c.assume(False)
                elif eq is not False:
                    c.assume(z3.Not(eq))
        if any(isinstance(x, Sym) or _deep_sym(x) for x in items) or len(items) > 1:
            return SymFrozenset(items)
        return frozenset(items)
    if kind == "slice":
        parts = []
        for i in range(3):
            # a bound is a scalar, None -- or itself an immutable container (a slice of tuples is still a plain value)
            if c.choose(2, label + "s%d-container-bound" % i) == 1:
                parts.append((gen_leaf(c, "int"),))
            else:
                parts.append(gen_value(c, 0, max_arity, ["none", "int", "str"], with_nonplain, label + "s" + str(i)))
        if any(isinstance(x, Sym) or _deep_sym(x) for x in parts):
            return SymSlice(*parts)
        try:
            return slice(*parts)
        except Exception:
            return SymSlice(*parts)
    raise ValueError(kind)


class LazyPlain(Sym):
    """an arbitrary plain immutable value whose kind is chosen only when the
    program inspects it (induction hypothesis of the decoder obligations)"""
    __slots__ = ("val", "forced", "depth")

    def __init__(self, depth=1):
        self.val = None
        self.forced = False
        self.depth = depth

    def force(self):
        if not self.forced:
            self.val = gen_value(ctx(), self.depth, 3, label="lazy")
            self.forced = True
        return self.val

    @property
    def pytype(self):
        return V.pytype_of(self.force())

    def truth_term(self):
        v = self.force()
        return V.truth_term(v) if isinstance(v, Sym) else z3.BoolVal(bool(v))

    def sym_iter(self):
        v = self.force()
        h = getattr(v, "sym_iter", None)
        if h is not None:
            return h()
        if isinstance(v, Sym):
            raise TypeError("%r object is not iterable" % V.pytype_of(v).__name__)
        return iter(v)

    def sym_unpack(self, n, starred):
        v = self.force()
        h = getattr(v, "sym_unpack", None)
        if h is not None:
            return h(n, starred)
        if isinstance(v, Sym):
            raise TypeError("cannot unpack non-iterable %s object" % V.pytype_of(v).__name__)
        items = list(v)
        if len(items) != n:
            raise ValueError("wrong number of values to unpack")
        return items

    @staticmethod
    def sym_getattr(obj, interp, name):
        return interp.getattr(obj.force(), name)


def _deep_sym(x):
    if isinstance(x, Sym):
        return True
    if type(x) in (tuple, list, frozenset):
        return any(_deep_sym(y) for y in x)
    return False


def kind_of(v):
    """type tag of a (symbolic or concrete) value"""
    if isinstance(v, LazyPlain) and not v.forced:
        return LazyPlain
    return V.pytype_of(v)


def is_plain(v):
    """the property's 'immutable plain value' predicate, by exact type"""
    if isinstance(v, LazyPlain):
        return True if not v.forced else is_plain(v.val)
    t = V.pytype_of(v)
    if v is None or v is NotImplemented or v is Ellipsis:
        return True
    if t in (bool, int, float, complex, bytes, str):
        return True
    if t is tuple:
        return all(is_plain(x) for x in v)
    if t is frozenset:
        items = v.items if isinstance(v, SymFrozenset) else list(v)
        return all(is_plain(x) for x in items)
    if t is slice:
        return is_plain(v.start) and is_plain(v.stop) and is_plain(v.step)
    return False


def same(a, b):
    """type-exact structural equality: python bool or z3 Bool term"""
    ta, tb = V.pytype_of(a), V.pytype_of(b)
    if ta is not tb:
        return False
    if a is None or a is NotImplemented or a is Ellipsis:
        return a is b
    if ta is float:
        fa = a.e if isinstance(a, SymFloat) else z3.FPVal(a, F64)
        fb = b.e if isinstance(b, SymFloat) else z3.FPVal(b, F64)
        return fa == fb          # SMT equality: bit pattern classes (NaN == NaN, +0 != -0)
    if ta is complex:
        ra, ia = (a.real, a.imag)
        rb, ib = (b.real, b.imag)
        return _and([same(_f(ra), _f(rb)), same(_f(ia), _f(ib))])
    if ta is str and (isinstance(a, SymText) or isinstance(b, SymText)):
        if a is b:
            return True
        r = V.compare("==", a, b)
        return V.truth_term(r) if isinstance(r, Sym) else r
    if ta in (bool, int, str):
        r = V.compare("==", a, b)
        return V.truth_term(r) if isinstance(r, Sym) else r
    if ta is bytes:
        r = V.compare("==", a, b) if (isinstance(a, Sym) or isinstance(b, Sym)) else (a == b)
        return V.truth_term(r) if isinstance(r, Sym) else r
    if ta is tuple:
        if len(a) != len(b):
            return False
        return _and([same(x, y) for x, y in zip(a, b)])
    if ta is frozenset:
        ia = a.items if isinstance(a, SymFrozenset) else list(a)
        ib = b.items if isinstance(b, SymFrozenset) else list(b)
        if not isinstance(a, SymFrozenset) and not isinstance(b, SymFrozenset):
            return a == b
        if len(ia) != len(ib):
            return False
        # members are pairwise different on each side: equal iff every member of a is in b
        return _and([_or([same(x, y) for y in ib]) for x in ia])
    if ta is slice:
        return _and([same(a.start, b.start), same(a.stop, b.stop), same(a.step, b.step)])
    return a is b


def _f(x):
    return x if isinstance(x, SymFloat) else (SymFloat(z3.FPVal(float(x), F64)) if type(x) in (int, float) else x)


def _or(parts):
    if any(p is True for p in parts):
        return True
    terms = [p for p in parts if p is not False]
    if not terms:
        return False
    return z3.Or(*terms)


def _and(parts):
    if any(p is False for p in parts):
        return False
    terms = [p for p in parts if p is not True]
    if not terms:
        return True
    return z3.And(*terms)


# ---------------------------------------------------------------------------
# reference encoder over symbolic values (shortest form of the published format)
# ---------------------------------------------------------------------------

def _tag(t):
    return Lit(bytes([t]))


def ref_encode(v):
    """Rope of the published 5.x encoding of a plain value (symbolic or concrete)"""
    return Rope(_enc(v))


def _len_head(c, n_term, tags14, tag_l1, tag_l4, empty_tag):
    """header segments for a length-prefixed item of (symbolic) length n"""
    n = z3.simplify(n_term)
    if c.branch(n == 0, "ref-len0"):
        return [_tag(empty_tag)] if empty_tag is not None else None
    for k in range(1, 5):
        if tags14 is not None and c.branch(n == k, "ref-len%d" % k):
            return [_tag(tags14 + k - 1)]
    if c.branch(n < 256, "ref-l1"):
        return [_tag(tag_l1), Field(1, n)]
    return [_tag(tag_l4), Field(4, n)]


def _enc(v):
    c = ctx()
    t = V.pytype_of(v)
    if v is None:
        return [_tag(W.T_NONE)]
    if v is NotImplemented:
        return [_tag(W.T_NOTIMPL)]
    if v is Ellipsis:
        return [_tag(W.T_ELLIPSIS)]
    if t is bool:
        if isinstance(v, Sym):
            return [Field(1, z3.If(v.e, z3.IntVal(W.T_TRUE), z3.IntVal(W.T_FALSE)))]
        return [_tag(W.T_TRUE if v else W.T_FALSE)]
    if t is int:
        if not isinstance(v, Sym):
            return [Lit(W.encode(v))]
        e = v.e
        if c.branch(z3.And(e >= W.IMM_LO, e < W.IMM_HI), "ref-imm"):
            return [Field(1, e + W.IMM_BIAS)]
        from engine.models import digits_axioms
        c.add_fact(digits_axioms(e))
        n = DIGITS(e)
        if c.branch(n < 256, "ref-int-l1"):
            return [_tag(W.T_INT_L1), Field(1, n), ("digits", e)]
        return [_tag(W.T_INT_L4), Field(4, n), ("digits", e)]
    if t is float:
        return [_tag(W.T_FLOAT), ("fp", _f(v).e)]
    if t is complex:
        return [_tag(W.T_COMPLEX), ("fp", _f(v.real).e), ("fp", _f(v.imag).e)]
    if t is bytes:
        r = Rope.of(v)
        head = _len_head(c, r.length_term(), W.T_BYTES_1, W.T_BYTES_L1, W.T_BYTES_L4, W.T_EMPTY_BYTES)
        if head[0].b[0] == W.T_EMPTY_BYTES:
            return head
        return head + list(r.segs)
    if t is str:
        if not isinstance(v, Sym):
            return [Lit(W.encode(v))]
        if isinstance(v, SymText):
            head = _len_head(c, v.ulen, W.T_BYTES_1, W.T_BYTES_L1, W.T_BYTES_L4, W.T_EMPTY_BYTES)
            if head[0].b[0] == W.T_EMPTY_BYTES:
                return [_tag(W.T_UNICODE)] + head
            return [_tag(W.T_UNICODE)] + head + [("text", v)]
        n = ULEN(v.e)
        head = _len_head(c, n, W.T_BYTES_1, W.T_BYTES_L1, W.T_BYTES_L4, W.T_EMPTY_BYTES)
        if head[0].b[0] == W.T_EMPTY_BYTES:
            return [_tag(W.T_UNICODE)] + head
        return [_tag(W.T_UNICODE)] + head + [("utf8", v.e)]
    if t is tuple:
        n = len(v)
        if n == 0:
            head = [_tag(W.T_EMPTY_TUPLE)]
        elif n <= 4:
            head = [_tag(W.T_TUP_1 + n - 1)]
        elif n < 256:
            head = [_tag(W.T_TUP_L1), Lit(bytes([n]))]
        else:
            head = [_tag(W.T_TUP_L4), Lit(n.to_bytes(4, "big"))]
        out = head
        for x in v:
            out = out + _enc(x)
        return out
    if t is slice:
        return [_tag(W.T_SLICE)] + _enc((v.start, v.stop, v.step))
    if t is frozenset:
        items = v.items if isinstance(v, SymFrozenset) else list(v)
        return [_tag(W.T_FSET)] + _enc(tuple(items))
    raise TypeError("not plain: %r" % (t,))


def rope_matches(real, ref_segs):
    """does the real rope equal the reference segment list?  Reference segments
    may contain abstract payload markers ('digits', n) / ('utf8', s) / ('fp', f)
    which match a whole base blob with that origin.  Lock-step structural
    comparison; returns a python bool or a z3 term."""
    from engine.rope import Slice, _norm
    conj = []
    ra = list(real.segs)
    # normalise the reference (merge literals) keeping markers in place
    rb = []
    run = []
    for seg in ref_segs:
        if isinstance(seg, tuple):
            rb.extend(_norm(run))
            run = []
            rb.append(seg)
        else:
            run.append(seg)
    rb.extend(_norm(run))
    while ra and rb:
        x, y = ra[0], rb[0]
        if isinstance(y, tuple):
            if not isinstance(x, Slice) or not x.whole() or not x.base.origin:
                return False
            o = x.base.origin
            if y[0] == "digits":
                if o[0] != "text" or not o[1].origin or o[1].origin[0] != "digits":
                    return False
                conj.append(o[1].origin[1] == y[1])
            elif y[0] == "text":
                if o[0] != "text" or o[1] is not y[1]:
                    return False
            elif y[0] == "utf8":
                if o[0] != "utf8" or o[2] != "strict":
                    return False
                conj.append(o[1] == y[1])
            elif y[0] == "fp":
                if o[0] != "fp" or o[2] != "d":
                    return False
                conj.append(o[1] == y[1])
            ra.pop(0)
            rb.pop(0)
            continue
        if isinstance(x, Lit) and isinstance(y, Lit):
            n = min(len(x.b), len(y.b))
            if x.b[:n] != y.b[:n]:
                return False
            ra[0:1] = [Lit(x.b[n:])] if len(x.b) > n else []
            rb[0:1] = [Lit(y.b[n:])] if len(y.b) > n else []
            continue
        if isinstance(x, Field) and isinstance(y, Field) and x.width == y.width:
            conj.append(x.value == y.value)
            ra.pop(0)
            rb.pop(0)
            continue
        if (isinstance(x, Field) and isinstance(y, Lit)) or (isinstance(x, Lit) and isinstance(y, Field)):
            f, l, fl, ll = (x, y, ra, rb) if isinstance(x, Field) else (y, x, rb, ra)
            if len(l.b) < f.width:
                return False
            conj.append(f.value == int.from_bytes(l.b[:f.width], "big"))
            fl.pop(0)
            ll[0:1] = [Lit(l.b[f.width:])] if len(l.b) > f.width else []
            continue
        if isinstance(x, Slice) and isinstance(y, Slice) and x.base is y.base:
            conj.append(x.off == y.off)
            conj.append(x.len == y.len)
            ra.pop(0)
            rb.pop(0)
            continue
        return False
    if ra or rb:
        return False
    return _and(conj) if conj else True
