"""C07 -- a hostile peer cannot step outside what the service exposes (default configuration).

Per-message obligations from an arbitrary valid connection state (the peer can
name only what this connection lent it):
O1  _unbox confinement for arbitrary packages (any label, forged/stale/foreign ids)
O2  every handler id (valid or not) with arbitrary argument shapes: attribute
    touches obey the default policy, no pickling, no import, no eval/exec;
    exactly one response frame; other connections and the service untouched
O3  arbitrary message kinds / exception payloads through _dispatch
"""
import pickle
import sys

import z3

from engine import core, values as V
from engine.core import ctx
from engine.harness import Run, Acc, par_explore
from engine.interp import Interp
from engine.values import Sym, SymInt, SymStr
from props import l2
from props.c06 import Spy, HAS, Token
from specs import policy_spec as spec


# names the library itself reads on an object while identifying it for boxing (get_id_pack, chained-connection probes);
# they are fixed by the library, not chosen by the peer
INTROSPECTION = ("____id_pack__", "____conn__", "__name__", "__class__", "__module__")


class Sinks(object):
    log = []


def install_sinks(interp):
    """effect-logged sinks: reaching any of them under the default configuration is a violation"""
    import rpyc.core.protocol as proto
    import rpyc.core.vinegar as vinegar
    del Sinks.log[:]

    class FakePickle(object):
        @staticmethod
        def dumps(*a, **k):
            Sinks.log.append("pickle.dumps")
            return b"PICKLE"

        @staticmethod
        def loads(*a, **k):
            Sinks.log.append("pickle.loads")
            return None
    interp.override_global(proto, "pickle", FakePickle)

    def fake_import(name, *a, **k):
        Sinks.log.append("import " + str(name))
        raise ImportError(name)
    interp.override_global(vinegar, "__import__", fake_import)
    for mod in (proto, vinegar):
        interp.override_global(mod, "eval", lambda *a, **k: Sinks.log.append("eval"))
        interp.override_global(mod, "exec", lambda *a, **k: Sinks.log.append("exec"))


REPLAY_HEAD = '''# replay of a counterexample found by /verif (property C07) on the real rpyc
import sys, pickle
sys.path.insert(0, __import__("os").environ.get("VERIF_REPO", "/repo"))
from rpyc.core.protocol import Connection
from rpyc.core.service import VoidService
from rpyc.core import consts, brine, netref
from rpyc.lib import get_id_pack
class Chan(object):
    def __init__(self): self.frames = []; self.inbox = []
    def send(self, d): self.frames.append(bytes(d))
    def poll(self, t): return bool(self.inbox)
    def recv(self): return self.inbox.pop(0)
    def close(self): pass
touched = []
WATCH = ("public_attr", "_private", "__dict__", "secret_method")
class Meta(type):
    def __getattribute__(cls, n):
        if n in WATCH: touched.append(("get", n))
        return type.__getattribute__(cls, n)
class Secret(object, metaclass=Meta):
    """an object lent to the peer: it has a public, a private, an exposed and a safe-listed attribute"""
    exposed_ok = 1
    def __init__(self): object.__setattr__(self, "_armed", True)
    def __getattribute__(self, n):
        if n in ("public_attr", "_private", "__dict__", "secret_method"): touched.append(("get", n))
        return object.__getattribute__(self, n)
    def __setattr__(self, n, v): touched.append(("set", n))
    def __delattr__(self, n): touched.append(("del", n))
    public_attr = 2; _private = 3
    def secret_method(self): touched.append(("call", "secret_method")); return 4
    def __eq__(self, o): return True
    def __hash__(self): return 1
'''


def ob_unbox(run, interp):
    from rpyc.core.protocol import Connection
    from rpyc.core import consts, netref
    from rpyc.lib import get_id_pack

    def ob(o):
        o.symbolic = ["label: Int (any)", "payload: plain value / tuple of packages / identifier triple that is valid, stale, of another connection, malformed (exhaustive)",
                      "identifier fields: Int"]
        acc = Acc()

        def harness(c):
            l2.install_identity_codec(interp)
            clk = l2.install_clock(interp)
            conn = l2.make_conn(l2.ListChannel(interp, clk))       # a peer that never answers: requests time out in virtual time
            other = l2.make_conn(l2.ListChannel())
            mine, theirs = Spy(), Spy()
            idm, idt = get_id_pack(mine), get_id_pack(theirs)
            conn._local_objects.add(idm, mine)
            other._local_objects.add(idt, theirs)
            label = SymInt(c.fresh_int("label"))
            kinds = ["value", "valid-id", "foreign-id", "stale-id", "forged-id", "short-id", "junk", "nested", "forged-builtin-id"]
            k = kinds[c.choose(len(kinds), "payload")]
            if k == "value":
                payload = SymInt(c.fresh_int("v"))
            elif k == "valid-id":
                payload = idm
            elif k == "foreign-id":
                payload = idt
            elif k == "stale-id":
                payload = (idm[0], idm[1], idm[2] + 8)
            elif k == "forged-id":
                payload = ("builtins.list", 424242, 434343 + c.choose(2, "forged-instance"))
            elif k == "forged-builtin-id":
                # the name of a class every process has, any class id, instance id 0 / 1 / the class id again
                nm = ["builtins.dict", "builtins.function", "builtins.code", "builtins.object", "builtins.type", "builtins.list"][c.choose(6, "builtin-name")]
                payload = (nm, 424242, [0, 1, 424242][c.choose(3, "instance-id")])
            elif k == "short-id":
                payload = ("builtins.list",)
            elif k == "junk":
                payload = None
            else:
                payload = ((SymInt(c.fresh_int("l2")), idt), (consts.LABEL_VALUE, 5))
            c.notes.update(conn=conn, other=other, mine=mine, theirs=theirs, k=k, label=label)
            try:
                return interp.call(Connection._unbox, (conn, (label, payload)))
            finally:
                l2.retire(conn, other)

        def leaves(x):
            if type(x) is tuple:
                for y in x:
                    yield from leaves(y)
            else:
                yield x

        def on_path(r):
            c = r.ctx
            if r.outcome == "abort":
                return
            n = c.notes
            acc.inc(n["k"])
            bad = None
            lab = n["label"].e
            if r.outcome == "raise":
                if not isinstance(r.exc, (ValueError, KeyError, TypeError, IndexError, AttributeError)) and type(r.exc).__name__ != "TimeoutError":
                    bad = "unexpected %s" % type(r.exc).__name__
            elif r.outcome == "return":
                for x in leaves(r.value):
                    if x is n["theirs"]:
                        bad = "an object of another connection was resolved from a forged identifier"
                    elif isinstance(x, netref.BaseNetref) and object.__getattribute__(x, "____conn__") is not n["conn"]:
                        bad = "a proxy bound to another connection was created"
                    elif isinstance(x, Spy) and x is not n["mine"]:
                        bad = "an object never lent on this connection was obtained"
                    elif x is not n["mine"] and not isinstance(x, (int, str, bytes, float, bool, type(None), Sym, netref.BaseNetref)):
                        bad = "an object never lent on this connection was obtained: %s" % (getattr(x, "__name__", None) or type(x).__name__,)
                # a label outside 1..4 must be refused
                ok, m = c.must_hold(z3.And(lab >= 1, lab <= 4))
                if not ok:
                    bad = bad or "label %s accepted" % m.eval(lab, model_completion=True)
            if len(o.samples) < 6:
                o.samples.append({"payload": n["k"], "outcome": r.outcome if r.outcome != "raise" else type(r.exc).__name__})
            if bad and len(o.violations) < 2:
                m = c.check_model()
                lv = m.eval(lab, model_completion=True).as_long() if m is not None else 3
                run.replay(o, "unbox:%s" % n["k"], "%s (payload kind %s, label %d)" % (bad, n["k"], lv), REPLAY_HEAD + '''
conn = Connection(VoidService(), Chan()); other = Connection(VoidService(), Chan())
mine, theirs = Secret(), Secret()
conn._local_objects.add(get_id_pack(mine), mine); other._local_objects.add(get_id_pack(theirs), theirs)
label, kind = %d, %r
idt = get_id_pack(theirs); idm = get_id_pack(mine)
payload = {"value": 7, "valid-id": idm, "foreign-id": idt, "stale-id": (idm[0], idm[1], idm[2] + 8), "forged-id": ("builtins.list", 1, 2),
           "short-id": ("builtins.list",), "junk": None, "nested": ((label, idt), (1, 5)), "forged-builtin-id": None}[kind]
bad = []
if kind == "forged-builtin-id":
    for nm in ("builtins.dict", "builtins.function", "builtins.code", "builtins.object", "builtins.type", "builtins.list"):
        for inst in (0, 1, 424242):
            try:
                got = conn._unbox((label, (nm, 424242, inst)))
                if got is not mine and not isinstance(got, netref.BaseNetref): bad.append("resolved %%r from a forged identifier %%r" %% (got, (nm, 424242, inst)))
            except Exception as e:
                pass
try:
    out = conn._unbox((label if kind != "nested" else 2, payload))
    flat = []
    def walk(x):
        if type(x) is tuple:
            for y in x: walk(y)
        else: flat.append(x)
    walk(out)
    if any(x is theirs for x in flat): bad.append("resolved another connection's object")
    if any(isinstance(x, netref.BaseNetref) and object.__getattribute__(x, "____conn__") is not conn for x in flat): bad.append("foreign proxy")
    if not 1 <= label <= 4 and kind != "nested": bad.append("label accepted")
except Exception as e:
    print("refused:", type(e).__name__)
conn._closed = other._closed = True
print(bad)
if bad:
    print("REPRODUCED"); sys.exit(1)
''' % (lv, n["k"]))

        n_, incomplete = par_explore(run, o, harness, on_path, acc, split_depth=3)
        o.paths = dict(acc.counts, total=n_)
        if incomplete:
            o.verdict = "inconclusive"
            o.detail = incomplete
        if len(acc.counts) < 9:
            raise core.HarnessError("reachability twin: %s" % acc.counts)
    return ob


def handed_out(conn, chan, legit):
    """objects of this process that the response frames hand to the peer by reference and that are not in `legit`"""
    from rpyc.core import consts
    out = []

    def walk(boxed):
        if type(boxed) is not tuple or len(boxed) != 2:
            return
        label, value = boxed
        if label == consts.LABEL_TUPLE and type(value) is tuple:
            for x in value:
                walk(x)
        elif label == consts.LABEL_REMOTE_REF:
            try:
                obj = conn._local_objects[tuple(value)]
            except Exception:
                return
            if not any(obj is x for x in legit) and not isinstance(obj, (Token, Spy)):
                out.append(obj)
    for f in chan.out:
        msg = getattr(f, "obj", None)
        if type(msg) is tuple and len(msg) == 3 and msg[0] == consts.MSG_REPLY:
            walk(msg[2])
    return out


ARG_SHAPES = ["()", "(obj,)", "(obj, name)", "(obj, name, value)", "(obj, (), ())", "(obj, name, (), ())", "(obj, obj, name)",
              "(obj, 5)", "(obj, name, name, 1, 2, ())", "(5,)", "(obj, None)", "(idpack,)", "(obj, idpack)"]


def ob_handlers(run, interp):
    from rpyc.core.protocol import Connection, DEFAULT_CONFIG
    from rpyc.core import consts
    from rpyc.lib import get_id_pack
    safe = DEFAULT_CONFIG["safe_attrs"]

    def ob(o):
        o.symbolic = ["handler number: Int (any, valid or not)", "peer-chosen names: String (unbounded)", "has(obj, .) uninterpreted",
                      "argument shape: exhaustive over %d shapes mixing lent objects, names, values, tuples, identifiers" % len(ARG_SHAPES)]
        o.stubs = ["pickle / __import__ / eval / exec are effect-logged sinks", "lent objects are spies (effect-logged attribute protocol)"]
        acc = Acc()

        def harness(c):
            l2.install_identity_codec(interp)
            install_sinks(interp)
            chan = l2.ListChannel()
            conn = l2.make_conn(chan)
            other = l2.make_conn(l2.ListChannel())
            spy = Spy()
            ids = get_id_pack(spy)
            conn._local_objects.add(ids, spy)
            before_other = dict(other._local_objects._dict)
            hid = SymInt(c.fresh_int("handler"))
            name = SymStr(z3.String("name"))
            shape = ARG_SHAPES[c.choose(len(ARG_SHAPES), "args")]
            R = (consts.LABEL_LOCAL_REF, ids)
            Vn = (consts.LABEL_VALUE, name)
            V5 = (consts.LABEL_VALUE, 5)
            E = (consts.LABEL_VALUE, ())
            IDP = (consts.LABEL_VALUE, ids)
            table = {"()": (), "(obj,)": (R,), "(obj, name)": (R, Vn), "(obj, name, value)": (R, Vn, V5), "(obj, (), ())": (R, E, E),
                     "(obj, name, (), ())": (R, Vn, E, E), "(obj, obj, name)": (R, R, Vn), "(obj, 5)": (R, V5),
                     "(obj, name, name, 1, 2, ())": (R, Vn, Vn, (consts.LABEL_VALUE, 1), (consts.LABEL_VALUE, 2), E), "(5,)": (V5,),
                     "(obj, None)": (R, (consts.LABEL_VALUE, None)), "(idpack,)": (IDP,), "(obj, idpack)": (R, IDP)}
            boxed = (consts.LABEL_TUPLE, table[shape])
            c.notes.update(conn=conn, other=other, chan=chan, spy=spy, shape=shape, hid=hid, before_other=before_other)
            try:
                return interp.call(Connection._dispatch_request, (conn, 7, (hid, boxed)))
            finally:
                l2.retire(conn, other)

        def on_path(r):
            c = r.ctx
            if r.outcome == "abort" or "hid" not in c.notes:
                return
            n = c.notes
            acc.inc("shape:" + n["shape"])
            bad = None
            conds = []
            name_t = z3.String("name")
            chan = n["chan"]
            if r.outcome == "raise" and not (isinstance(r.exc, EOFError) and chan.closed):
                # (end-of-stream after the peer's own close request ended this very connection is the expected outcome)
                bad = "%s escaped the dispatcher" % type(r.exc).__name__
            if Sinks.log:
                bad = bad or "reached %s under the default configuration" % (Sinks.log,)
            closed = n["conn"]._HANDLERS if hasattr(n["conn"], "_HANDLERS") else None
            if r.outcome == "return" and len(chan.out) != 1 and closed is not None:
                bad = bad or "%d response frames" % len(chan.out)
            if dict(n["other"]._local_objects._dict) != n["before_other"]:
                bad = bad or "another connection's table was altered"
            leaked = handed_out(n["conn"], chan, [n["spy"], n["conn"]._local_root])       # (the root object is what GETROOT is for)
            if leaked:
                bad = bad or "an object never lent on this connection was handed to the peer: %s" % (type(leaked[0]).__name__,)
            # attribute touches on the lent object must be permitted by the default policy for the peer's name
            cfgt = dict((k, z3.BoolVal(v) if isinstance(v, bool) else None) for k, v in DEFAULT_CONFIG.items() if isinstance(v, bool))
            cfgt["exposed_prefix"] = z3.StringVal(DEFAULT_CONFIG["exposed_prefix"])
            for e in c.log:
                if e[0] in ("setattr", "delattr"):
                    conds.append(z3.BoolVal(False))          # default config forbids set/del altogether
                elif e[0] in ("getattr", "call"):
                    owner = e[1]
                    if e[0] == "getattr" and type(e[2]) is str and e[2] in INTROSPECTION:
                        continue          # the library's own identification of an object it is about to box / was handed
                    t = V.term(e[2])
                    has = lambda x, owner=owner: HAS(z3.IntVal(owner), x)
                    alts = []
                    for req in (name_t, z3.StringVal("__exit__"), z3.StringVal("__cmp__")):
                        allowed, twin, twin_name = spec.decision(cfgt, "allow_getattr", req, has, safe)
                        alts.append(spec.result_ok(allowed, twin, twin_name, req, t, has(req)))
                        if e[0] == "getattr":
                            alts.append(z3.Or(t == req, t == twin_name))      # existence probes of the policy check itself
                    conds.append(z3.Or(*alts))
            model = None
            if bad is None and conds:
                ok, model = c.must_hold(z3.And(*conds))
                if not ok:
                    bad = "an attribute the default policy denies was touched / called"
            if len(o.samples) < 6 and c.log:
                o.samples.append({"args": n["shape"], "log": [str(x)[:60] for x in c.log][:3]})
            if bad and len(o.violations) < 3:
                m = model or c.check_model()
                if m is None:
                    return
                hv = m.eval(n["hid"].e, model_completion=True).as_long()
                nm = V.z3str_to_py(m.eval(name_t, model_completion=True))
                sig = "handler:%d:%s" % (hv, bad.split()[0])
                if any(v["signature"] == sig for v in o.violations):
                    return
                run.replay(o, sig, "%s (handler %d, args %s, name %r)" % (bad, hv, n["shape"], nm), replay_handler(hv, n["shape"], nm))

        n_, incomplete = par_explore(run, o, harness, on_path, acc, split_depth=4)
        o.paths = dict(acc.counts, total=n_)
        if incomplete:
            o.verdict = "inconclusive"
            o.detail = incomplete
        if len(acc.counts) < len(ARG_SHAPES):
            raise core.HarnessError("reachability twin: %s" % acc.counts)
    return ob


def replay_handler(hid, shape, name):
    return REPLAY_HEAD + '''
hid, shape, name = %d, %r, %r
import rpyc.core.protocol as proto
sinks = []
class FP(object):
    @staticmethod
    def dumps(*a, **k): sinks.append("pickle.dumps"); return b"x"
    @staticmethod
    def loads(*a, **k): sinks.append("pickle.loads")
proto.pickle = FP
ch = Chan()
conn = Connection(VoidService(), ch)
s = Secret(); ids = get_id_pack(s); conn._local_objects.add(ids, s)
R = (consts.LABEL_LOCAL_REF, ids); Vn = (consts.LABEL_VALUE, name); V5 = (consts.LABEL_VALUE, 5); E = (consts.LABEL_VALUE, ()); IDP = (consts.LABEL_VALUE, ids)
table = {"()": (), "(obj,)": (R,), "(obj, name)": (R, Vn), "(obj, name, value)": (R, Vn, V5), "(obj, (), ())": (R, E, E),
         "(obj, name, (), ())": (R, Vn, E, E), "(obj, obj, name)": (R, R, Vn), "(obj, 5)": (R, V5),
         "(obj, name, name, 1, 2, ())": (R, Vn, Vn, (consts.LABEL_VALUE, 1), (consts.LABEL_VALUE, 2), E), "(5,)": (V5,),
         "(obj, None)": (R, (consts.LABEL_VALUE, None)), "(idpack,)": (IDP,), "(obj, idpack)": (R, IDP)}
bad = []
names = [name, "_private", "public_attr", "secret_method", "__dict__"]
for nm in names:
    del touched[:]; del ch.frames[:]
    tb = dict(table); Vn2 = (consts.LABEL_VALUE, nm)
    boxed = (consts.LABEL_TUPLE, tuple(Vn2 if x is Vn else x for x in table[shape]))
    try:
        conn._dispatch_request(7, (hid, boxed))
    except BaseException as e:
        bad.append("escaped: %%r" %% (e,)); break
    allowed = lambda n: n.startswith("exposed_") or n in conn._config["safe_attrs"]
    for (kind, n) in touched:
        if kind in ("set", "del"): bad.append("%%s %%s under default config" %% (kind, n))
        elif not allowed(n): bad.append("%%s %%s denied by the default policy" %% (kind, n))
    if sinks: bad.append("sinks %%r" %% sinks)
conn._closed = True
print(bad)
if bad:
    print("REPRODUCED"); sys.exit(1)
''' % (hid, shape, name)


def ob_dispatch_kinds(run, interp):
    from rpyc.core.protocol import Connection
    from rpyc.core import consts

    def ob(o):
        o.symbolic = ["message kind: Int (any)", "sequence number: Int", "payload: crafted exception records / arbitrary plain shapes (exhaustive over 8)"]
        acc = Acc()
        PAYLOADS = [5, (), (("builtins", "ValueError"), (), (), ""), (("os", "system"), ("id",), (), ""), (("subprocess", "Popen"), ("x",), (), ""),
                    (consts.LABEL_VALUE, 1), (99, 1), "text"]

        def harness(c):
            l2.install_identity_codec(interp)
            install_sinks(interp)
            chan = l2.ListChannel()
            conn = l2.make_conn(chan)
            got = []
            conn._request_callbacks[3] = lambda is_exc, obj: got.append((is_exc, obj))
            kind = SymInt(c.fresh_int("kind"))
            seq = SymInt(c.fresh_int("seq"))
            p = PAYLOADS[c.choose(len(PAYLOADS), "payload")]
            c.notes.update(conn=conn, chan=chan, got=got, kind=kind, p=p)
            try:
                return interp.call(Connection._dispatch, (conn, l2.Frame((kind, seq, p))))
            finally:
                l2.retire(conn)

        def on_path(r):
            c = r.ctx
            if r.outcome == "abort" or "kind" not in c.notes:
                return
            n = c.notes
            acc.inc(r.outcome)
            bad = None
            if Sinks.log:
                bad = "reached %s" % (Sinks.log,)
            if r.outcome == "raise" and isinstance(r.exc, (SystemExit, KeyboardInterrupt)):
                bad = bad or "%s raised by a crafted message" % type(r.exc).__name__
            if len(o.samples) < 4:
                o.samples.append({"payload": repr(n["p"])[:50], "outcome": r.outcome if r.outcome != "raise" else type(r.exc).__name__})
            if bad and len(o.violations) < 2:
                run.replay(o, "dispatch:%s" % bad.split()[0], "%s on payload %r" % (bad, n["p"]), REPLAY_HEAD + '''
import rpyc.core.vinegar as vinegar, builtins
log = []
real = builtins.__import__
vinegar.__dict__["__import__"] = lambda name, *a, **k: (log.append(name), real(name, *a, **k))[1]
conn = Connection(VoidService(), Chan())
for kind in (1, 2, 3, 9):
    try:
        conn._dispatch(brine.dump((kind, 3, %r)))
    except Exception as e:
        pass
conn._closed = True
print(log)
if log:
    print("REPRODUCED"); sys.exit(1)
''' % (n["p"],))

        n_, incomplete = par_explore(run, o, harness, on_path, acc, split_depth=3)
        o.paths = dict(acc.counts, total=n_)
        if incomplete:
            o.verdict = "inconclusive"
            o.detail = incomplete
    return ob


# ---------------------------------------------------------------------------
from engine.harness import tier as _tier
FORGED = ["builtins.str", "builtins.bytes", "enum.StrEnum", "builtins.int"]
if _tier() == "thorough":
    FORGED = FORGED + ["builtins.tuple", "enum.IntEnum", "collections.UserString"]
SHAPES4 = ["(obj, fname)", "(obj, fname, (), ())", "(obj, obj, fname)", "(obj, fname, value)", "(fobj, lname)", "(fobj, lname, (), ())"]
# names that a proxy answers locally, without asking its owner
PROXY_LOCAL_NAMES = ["____conn__", "____id_pack__", "__class__", "__reduce_ex__", "__getattribute__", "__init__"]
LIES = [False, True, "_private"]
if _tier() == "thorough":
    # more lies per nested question and more reported classes
    LIES = [False, True, "_private", "exposed_ok", 0]
INSPECT_LIE = ("__radd__", "__add__", "startswith", "__hash__", "__eq__", "__str__", "decode", "__contains__", "__len__", "__iter__")
MAX_NESTED = 10


class LyingPeer(object):
    """the hostile peer while the victim handles its request: every nested request the victim makes (because the
    peer handed it a *proxy* where a name was expected) is answered with a lie of the peer's choosing"""

    def __init__(self, c):
        self.c = c
        self.chan = None
        self.lies = []

    def on_frame(self, frame):
        from rpyc.core import consts, brine
        # operations on a proxy that CPython itself dispatches (isinstance, operators, hashing) run natively and
        # arrive as real brine bytes; interpreted ones arrive under the identity codec: answer in kind
        raw = not isinstance(frame, l2.Frame)
        kind, seq, args = brine.load(bytes(frame)) if raw else frame.obj
        wrap = brine.dump if raw else l2.Frame
        if kind != consts.MSG_REQUEST:
            return
        handler = args[0]
        if handler == consts.HANDLE_DEL:
            return
        if len(self.lies) >= MAX_NESTED:
            self.c.assume(False)
        if handler == consts.HANDLE_INSPECT:
            ans, lie = (consts.LABEL_VALUE, tuple((m, None) for m in INSPECT_LIE)), "methods"
        elif handler == consts.HANDLE_GETATTR:
            ans, lie = (consts.LABEL_REMOTE_REF, ("builtins.function", 9001, 9002)), "callable"
        elif handler in (consts.HANDLE_CALL, consts.HANDLE_CALLATTR, consts.HANDLE_STR, consts.HANDLE_REPR):
            lie = LIES[self.c.choose(len(LIES), "lie")]
            ans = (consts.LABEL_VALUE, lie)
        elif handler == consts.HANDLE_HASH:
            ans, lie = (consts.LABEL_VALUE, 5), 5
        elif handler == consts.HANDLE_CMP:
            ans, lie = (consts.LABEL_VALUE, False), False
        else:
            ans, lie = None, "refuse"
        self.lies.append((handler, lie))
        if ans is None:
            self.chan.inbox.append(wrap((consts.MSG_EXCEPTION, seq, (("builtins", "ValueError"), ("no",), (), "tb"))))
        else:
            self.chan.inbox.append(wrap((consts.MSG_REPLY, seq, ans)))


def ob_forged_names(run, interp):
    """the peer passes, where a name / operator is expected, a reference to an object of its own whose reported class
    it chooses (str, bytes, a str subclass ...) and answers the victim's questions about it with lies"""
    from rpyc.core.protocol import Connection, DEFAULT_CONFIG
    from rpyc.core import consts
    from rpyc.lib import get_id_pack
    safe = DEFAULT_CONFIG["safe_attrs"]
    prefix = DEFAULT_CONFIG["exposed_prefix"]

    def ob(o):
        o.symbolic = ["handler number: Int (any)", "argument shape: %d shapes with a forged proxy in the name position" % len(SHAPES4),
                      "class reported for the forged proxy: %s" % FORGED,
                      "the peer's answer to each nested request (<= %d): exhaustive over %r for call-like requests" % (MAX_NESTED, LIES)]
        o.bounds = {"nested_requests": MAX_NESTED}
        acc = Acc()

        def harness(c):
            l2.install_identity_codec(interp)
            install_sinks(interp)
            clk = l2.install_clock(interp)
            peer = LyingPeer(c)
            chan = l2.ListChannel(interp, clk, peer)
            peer.chan = chan
            conn = l2.make_conn(chan)
            spy = Spy()
            ids = get_id_pack(spy)
            conn._local_objects.add(ids, spy)
            hid = SymInt(c.fresh_int("handler"))
            shape = SHAPES4[c.choose(len(SHAPES4), "args")]
            forged = FORGED[c.choose(len(FORGED), "forged-class")]
            R = (consts.LABEL_LOCAL_REF, ids)
            F = (consts.LABEL_REMOTE_REF, (forged, 424242, 434343))
            E = (consts.LABEL_VALUE, ())
            table = {"(obj, fname)": (R, F), "(obj, fname, (), ())": (R, F, E, E), "(obj, obj, fname)": (R, R, F), "(obj, fname, value)": (R, F, (consts.LABEL_VALUE, 5))}
            lname = None
            if shape.startswith("(fobj"):
                # the *target* is a reference to an object of the peer's own (any reported class); the name is one the proxy
                # answers locally
                lname = PROXY_LOCAL_NAMES[c.choose(len(PROXY_LOCAL_NAMES), "proxy-local-name")]
                FO = (consts.LABEL_REMOTE_REF, ("builtins.list", 515151, 525252))
                table[shape] = (FO, (consts.LABEL_VALUE, lname)) + ((E, E) if shape.endswith("(), ())") else ())
            c.notes.update(conn=conn, chan=chan, peer=peer, shape=shape, hid=hid, forged=forged, lname=lname, spy=spy)
            try:
                return interp.call(Connection._dispatch_request, (conn, 7, (hid, (consts.LABEL_TUPLE, table[shape]))))
            finally:
                l2.retire(conn)

        def on_path(r):
            c = r.ctx
            if r.outcome == "abort" or "hid" not in c.notes:
                return
            n = c.notes
            acc.inc("shape:" + n["shape"])
            acc.inc("forged:" + n["forged"])
            bad = None
            if r.outcome == "raise" and not (isinstance(r.exc, EOFError) and n["chan"].closed):
                bad = "%s escaped the dispatcher" % type(r.exc).__name__
            if Sinks.log:
                bad = bad or "reached %s under the default configuration" % (Sinks.log,)
            leaked = handed_out(n["conn"], n["chan"], [n["spy"], n["conn"]._local_root])
            if leaked:
                bad = bad or "an object never lent on this connection was handed to the peer: %s" % (type(leaked[0]).__name__,)
            for e in c.log:
                if e[0] in ("setattr", "delattr"):
                    bad = bad or "%s under the default configuration" % e[0]
                elif e[0] in ("getattr", "call"):
                    t = e[2]
                    if type(t) is not str:
                        bad = bad or "attribute touched under a non-text name %r" % (type(t).__name__,)
                    elif e[0] == "getattr" and t in INTROSPECTION:
                        continue
                    elif not (t.startswith(prefix) or t in safe):
                        bad = bad or "attribute %r, which the default policy denies, was %s" % (t, "read" if e[0] == "getattr" else "called")
            if len(o.samples) < 6 and n["peer"].lies:
                o.samples.append({"args": n["shape"], "forged": n["forged"], "nested": [str(x) for x in n["peer"].lies][:6]})
            if bad and len(o.violations) < 3:
                m = c.check_model()
                if m is None:
                    return
                hv = m.eval(n["hid"].e, model_completion=True).as_long()
                sig = "forged:%d:%s" % (hv, n["forged"])
                if any(v["signature"] == sig for v in o.violations):
                    return
                run.replay(o, sig, "%s (handler %d, args %s%s, reported class %s, lies %s)" % (bad, hv, n["shape"], " with name %r" % n["lname"] if n["lname"] else "", n["forged"], n["peer"].lies),
                           replay_forged(hv, n["shape"], n["forged"], [l for (_h, l) in n["peer"].lies], n["lname"]))

        n_, incomplete = par_explore(run, o, harness, on_path, acc, split_depth=5)
        o.paths = dict(acc.counts, total=n_)
        if incomplete:
            o.verdict = "inconclusive"
            o.detail = incomplete
        for k in ["shape:" + x for x in SHAPES4] + ["forged:" + x for x in FORGED]:
            if not acc.counts.get(k):
                raise core.HarnessError("reachability twin: %s never completed (%s)" % (k, acc.counts))
    return ob


def replay_forged(hid, shape, forged, lies, lname=None):
    return REPLAY_HEAD + """
hid, shape, forged, lies = %d, %r, %r, %r
lname = %r
INSPECT_LIE = %r
class LyingChan(Chan):
    # the hostile peer: answers every nested request of the victim with the recorded lies
    def send(self, d):
        kind, seq, args = brine.load(bytes(d))
        if kind != consts.MSG_REQUEST:
            self.frames.append(bytes(d)); return
        h = args[0]
        if h == consts.HANDLE_DEL: return
        lie = lies.pop(0) if lies else "refuse"
        if lie == "methods": ans = (consts.LABEL_VALUE, tuple((m, None) for m in INSPECT_LIE))
        elif lie == "callable": ans = (consts.LABEL_REMOTE_REF, ("builtins.function", 9001, 9002))
        elif lie == "refuse": ans = None
        else: ans = (consts.LABEL_VALUE, lie)
        if ans is None: self.inbox.append(brine.dump((consts.MSG_EXCEPTION, seq, (("builtins", "ValueError"), ("no",), (), "tb"))))
        else: self.inbox.append(brine.dump((consts.MSG_REPLY, seq, ans)))
ch = LyingChan()
conn = Connection(VoidService(), ch)
s = Secret(); ids = get_id_pack(s); conn._local_objects.add(ids, s)
R = (consts.LABEL_LOCAL_REF, ids); F = (consts.LABEL_REMOTE_REF, (forged, 424242, 434343)); E = (consts.LABEL_VALUE, ())
table = {"(obj, fname)": (R, F), "(obj, fname, (), ())": (R, F, E, E), "(obj, obj, fname)": (R, R, F), "(obj, fname, value)": (R, F, (consts.LABEL_VALUE, 5))}
if lname is not None:
    FO = (consts.LABEL_REMOTE_REF, ("builtins.list", 515151, 525252))
    table[shape] = (FO, (consts.LABEL_VALUE, lname)) + ((E, E) if shape.endswith("(), ())") else ())
bad = []
try:
    conn._dispatch_request(7, (hid, (consts.LABEL_TUPLE, table[shape])))
except BaseException as e:
    bad.append("escaped: %%r" %% (e,))
def walk(boxed):
    if type(boxed) is not tuple or len(boxed) != 2: return
    label, value = boxed
    if label == consts.LABEL_TUPLE and type(value) is tuple:
        for x in value: walk(x)
    elif label == consts.LABEL_REMOTE_REF:
        try: obj = conn._local_objects[tuple(value)]
        except Exception: return
        if obj is not s and obj is not conn._local_root: bad.append("handed to the peer by reference: %%s" %% type(obj).__name__)
for fr in ch.frames:
    msg = brine.load(fr)
    if msg[0] == consts.MSG_REPLY: walk(msg[2])
allowed = lambda n: n.startswith("exposed_") or n in conn._config["safe_attrs"]
for (kind, n) in touched:
    if kind in ("set", "del"): bad.append("%%s %%s under default config" %% (kind, n))
    elif not allowed(n): bad.append("%%s %%s denied by the default policy" %% (kind, n))
conn._closed = True
print(bad)
if bad:
    print("REPRODUCED"); sys.exit(1)
""" % (hid, shape, forged, lies, lname, INSPECT_LIE)




def main():
    core.INCREMENTAL = False        # path conditions contain z3 strings
    run = Run("C07", level="other")
    interp = Interp(loop_bound=600)   # concrete loops over dir()/method tables are long; peer-chosen texts that get unpacked character by character are enumerated up to 3 characters
    run.assumptions = ["the fixed introspection reads %s made while boxing/identifying an object are not peer-directed accesses" % (INTROSPECTION,),
                       "per-message (inductive over message histories): the peer can name only objects in this connection's local-object table",
                       "what a lent callable does when it is legitimately called, and denial of service by volume, are outside the claim",
                       "identity codec / frame list stand in for brine / Channel (C04/C05); exception payloads are also covered by C09-O3"]
    run.obligation("O1_unbox_confinement", "no package resolves to an object never lent on this connection; labels outside 1..4 are refused", ob_unbox(run, interp))
    run.obligation("O2_handlers_default_policy", "any handler number with any argument shape: touches obey the default policy; no pickle/import/eval; one response; nothing else altered",
                   ob_handlers(run, interp))
    run.obligation("O3_message_kinds", "any message kind with crafted payloads: no import / eval; never kills the process", ob_dispatch_kinds(run, interp))
    run.obligation("O4_forged_name_proxies", "a proxy with a peer-chosen class in the name position, nested questions answered with lies: touches still obey the default policy",
                   ob_forged_names(run, interp))
    run.note_encoded(interp)
    sys.exit(run.finish())


if __name__ == "__main__":
    main()
