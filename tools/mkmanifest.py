#!/usr/bin/env python3
"""Regenerates MANIFEST.json from the table below (kept in one place so the
manifest stays valid while checks are added)."""
import json, os
ROOT = os.path.dirname(os.path.dirname(os.path.abspath(__file__)))

CHECKS = {
 "C06": dict(
    category="other", design_ref="DESIGN.md section 4 (C06)",
    text=("Bounded symbolic execution of the real _check_attr/_access_attr/handlers/restricted()/Connection.__init__ "
          "(AST re-read from /repo each run) with all 7 switches, an unbounded prefix string, an unbounded name string and an "
          "uninterpreted attribute-existence predicate as solver variables; every path verdict is a z3 unsat of the negated "
          "policy oracle (an allowed name that exists on the object is itself what is accessed; the exposed twin stands in only otherwise); every explored path of _check_attr is also replayed concretely on CPython (translator validation). "
          "This covers the whole switch x name x object-shape x operation space at once, which the 5x7 sample of the suite cannot. Objects with their "
          "own attribute hooks (restricted views) are checked separately: every by-name handler must go through the hook whatever the switches say."),
    note=("Trusted: z3; the interpreter (validated per path against CPython for O1); spy objects abstract the target object's "
          "attribute protocol; when the allowed name does not exist on the object and a twin does, either target is accepted (the text is silent). "
          "Isolation histories bounded to length 2 (quick) / 3 (thorough)."),
    technique="symbolic execution of the Python AST + z3 (strings, uninterpreted predicates); replay on CPython"),
 "C04": dict(
    category="other", design_ref="DESIGN.md section 4 (C04)",
    text=("Symbolic execution of the real brine dump/load/dumpable over ropes: lengths of byte strings (0..2^32-1), integers (unbounded Int, "
          "digit count symbolic), texts (opaque, symbolic character/utf-8 lengths and a has-lone-surrogate bit), IEEE-754 terms for floats, "
          "value kinds incl. 17 non-plain witness types at every position up to the stated nesting/arity; z3 decides every length-class branch "
          "(so 255/256, immediate-int and digit-limit boundaries are found by construction) and the round-trip/agreement assertions. "
          "Decoder safety: bounded exploration of every byte string up to N bytes plus a structural-induction step per loader."),
    note=("Trusted: z3, the interpreter (validated against CPython on the suite's brine input and boundary values every run), the stub contracts "
          "listed in the evidence (struct, utf-8, str(int), BytesIO), the induction principle for O5. Bounds: nesting<=1/arity<=2 quick, "
          "<=2/<=2 thorough; decode inputs <=3 (quick)/4 (thorough) bytes; element loops unwound 64 (bounded) / 3 (inductive, cut paths counted)."),
    technique="symbolic execution of the Python AST over rope-modelled byte strings + z3 (LIA, UF, FP); replay on CPython"),
 "C05": dict(
    category="other", design_ref="DESIGN.md section 4 (C05)",
    text=("Symbolic execution of the real Channel.send/recv and SocketStream/PipeStream read/write loops over ropes: packet lengths, the "
          "compression flag, the length of every partial recv/send, the number of bytes available before the peer closes, the cut offset "
          "inside a frame and the outcome of each transport call (data/timeout/EAGAIN/EWOULDBLOCK/error) are solver variables; z3 decides "
          "the threshold (3000/3001), chunk (63995/63996) and length-field boundaries by construction and the equality of what was "
          "written/read with the reference frame and the original packets."),
    note=("Trusted: z3, interpreter (validated against CPython on Channel.send at 8 boundary sizes x 2 every run), socket/pipe/zlib stub "
          "contracts listed in the evidence. Bounds: 2 (quick)/3 (thorough) back-to-back packets; <=3/4 partial I/Os and 1/2 injected faults "
          "per stream call, paths needing more are cut and counted; payloads < 2^31 bytes."),
    technique="symbolic execution of the Python AST over rope-modelled byte streams + z3 (LIA, UF); replay on CPython"),
 "C19": dict(
    category="other", design_ref="DESIGN.md section 4 (C19)",
    text=("Differential symbolic check of the real brine.dump/load and Channel.send against an independently typed-in reference of the published "
          "5.x format: for every value shape and every length class (decided by z3, not sampled) the real encoder's rope must equal the reference "
          "shortest-form rope, the real decoder must accept every conforming length form the reference can emit, and the frame must equal the "
          "reference frame; constants, handler table and request argument layouts are compared with the published values. A self-consistent change "
          "on both ends of rpyc, which every existing test passes, is a disagreement here."),
    note=("Trusted: the typed-in reference (specs/ref_wire.py, specs/plain_sym.py), z3, interpreter, stub contracts of C04/C05. "
          "O4 (constants/layouts) is decided by direct comparison, not by the solver. Conversation-level conformance is exercised under the "
          "reference-peer harnesses of C01/C07/C08."),
    technique="differential symbolic execution (real codec vs reference codec over ropes) + z3; replay on CPython"),
 "C15": dict(
    category="other", design_ref="DESIGN.md section 4 (C15)",
    text=("Symbolic execution of the real AsyncResult, lib.Timeout, Connection.sync_request/async_request and helpers.timed with the clock as a "
          "solver variable (linear real arithmetic): every history of <=3 (quick)/4 (thorough) events over {advance, reply arrives, add_callback, "
          "ready?, expired?, error?, wait, value}, any timeout (none/negative/zero/positive), any arrival delay and every outcome of each serve() "
          "call (reply/unrelated traffic/idle/busy) is compared clause by clause with a reference state machine written from the property text; "
          "z3 finds boundary coincidences (reply exactly at the expiry, zero timeouts) that second-scale wall-clock tests cannot. timed() is built "
          "by its real constructor a symbolic delay before it is called: the expiry must count from the call."),
    note=("Trusted: z3, interpreter (validated against CPython on 8 AsyncResult scenarios every run), the contract of Connection.serve(timeout) "
          "used as environment (returns on arrival or exactly at the timeout unless busy), real arithmetic for clock values. Negative timeouts: "
          "only finality/callback clauses asserted. Bounds: history length, <=3 serve() calls per wait (cut paths counted)."),
    technique="symbolic execution of the Python AST with a symbolic clock + z3 (LRA); counterexample histories replayed on CPython with a virtual clock"),
 "C18": dict(
    category="other", design_ref="DESIGN.md section 4 (C18)",
    text=("Inductive step over the real RegistryServer command handlers: from an arbitrary well-formed registry state (membership of every "
          "(name,address) pair chosen exhaustively, every timestamp, the clock and the pruning interval solver Reals) one register/unregister/query "
          "must agree with a reference model on reply, resulting membership, ordering (oldest first) and notification multiset; z3 decides the "
          "pruning boundary and orderings. One iteration of the real main loop is executed on 22 datagram shapes (wrong magic, non-text/unknown "
          "command, wrong argument counts/types, undecodable) and must never let an exception escape nor touch unnamed registrations; the TCP "
          "receive path is run against a socket stub that hangs on recv() without a timeout."),
    note=("Trusted: z3, interpreter, brine.load contract (C04), the accepted-socket contract. Names and addresses are drawn from small concrete "
          "alphabets (2 known + 1 new, any letter case) -- the solver-decided part is time arithmetic and orderings. Registry clients and real "
          "sockets are outside the claim. Three genuine defects of the pinned tree were found here and repaired in /repo (see known_findings.json)."),
    technique="symbolic execution of the Python AST (inductive step from an arbitrary state) + z3 (LRA); replay on CPython / real TCP"),
 "C20": dict(
    category="other", design_ref="DESIGN.md section 4 (C20)",
    text=("Symbolic execution of the real classic.upload/upload_file/upload_dir/download/download_file/download_dir against in-memory file "
          "systems on both sides: file length and chunk size are solver Ints (so empty files, exact multiples and one-more/one-less are "
          "decided, not sampled), file contents are uninterpreted ropes, trees are chosen exhaustively up to depth 2 / fan-out 2 with "
          "file/dir/other/absent entries and empty directories, the name filter is an uninterpreted predicate; the destination must equal the "
          "filtered source under the same relative names."),
    note=("Trusted: z3, interpreter + model file system (validated against CPython and real temporary files on upload_file every run), the "
          "regular-file read contract. Bounds: chunk loop unwound 4 (quick)/6 (thorough), cut paths counted; tree depth<=2, fan-out<=2; "
          "symlinks/permissions/real remote I/O outside."),
    technique="symbolic execution of the Python AST over a model file system + z3 (LIA, UF); replay on CPython with real temporary files"),
 "C09": dict(
    category="other", design_ref="DESIGN.md section 4 (C09)",
    text=("Symbolic execution of the real vinegar.dump/load/_get_exception_class and Connection._box_exc/_unbox_exc with the two sender "
          "switches and the three receiver switches as solver Bools: class resolution for every built-in exception class, non-exception "
          "builtins, custom classes in imported / importable / unknown modules is compared with a specification table for all switch settings; "
          "dump->load round trips for all ~70 built-in classes and four argument shapes (symbolic members) check class fidelity, argument "
          "normalisation and gated traceback/version; crafted payloads must not import or run a constructor (import log + constructor canaries); "
          "two loads in a row with independent switch settings (6 Bools) must each follow their own switches (no process-wide memo of permissions)."),
    note=("Trusted: z3, interpreter, a three-module model of sys.modules/__import__ inside vinegar. Class and name spaces are finite exhaustive "
          "choices, not solver variables (the property quantifies over finitely many built-in classes); the solver decides the switch space. "
          "Known finding (recorded, not repaired): ExceptionGroup/BaseExceptionGroup cannot be rebuilt by load() on Python >= 3.11."),
    technique="symbolic execution of the Python AST with symbolic configuration switches + z3; replay on CPython"),
 "C08": dict(
    category="other", design_ref="DESIGN.md section 4 (C08)",
    text=("Symbolic execution of the real _dispatch_request/_dispatch/_seq_request_callback/_async_request/_send/_box/_unbox together with the "
          "real brine encoder: the request's sequence number, the handler's integer/text results (unbounded Int: the solver reaches results the "
          "interpreter cannot render, i.e. replies that fail to encode), the two propagate switches and the incoming response number are solver "
          "variables; handler outcomes (values, references, every built-in exception class, an application-defined BaseException, CancelledError, "
          "exceptions with unprintable data, undecodable arguments, unknown handler, wrong arity) are exhaustive choices. Assertions are over the frame ledger of an in-memory channel: exactly one response bearing the request's own number, "
          "handler at most once, nothing escapes but the configured local propagations; a response reaches exactly the callback registered under "
          "its number; callbacks are registered before sending and removed on failure. Freshness of request numbers: the recurrence of the number source "
          "found on the real Connection object (validated against Connection._get_seq_id) is encoded over unbounded integers and z3 decides that no two "
          "requests i<j of one connection share a number, however many lie in between."),
    note=("Trusted: z3, interpreter, stub contracts of C04; that itertools.count(a,s) yields a+s*k. One request/response at a time (histories and threads are C10-C13). The pinned tree's "
          "defect (unencodable reply tears the connection down) was found here and repaired in /repo."),
    technique="symbolic execution of the Python AST incl. the real serializer + z3 (LIA); replay on CPython"),
 "C12": dict(
    category="model_checking", design_ref="DESIGN.md sections 2.3 and 4 (C12)", engine="engine-B",
    text=("Schedule-symbolic bounded model checking of the real Connection._send: its AST is lowered to a statement-level control-flow graph "
          "at every run, the queue/try-lock/channel primitives get a bit-vector semantics, and the transition relation is unrolled with the "
          "schedule as solver variables; z3 (bit-blasted, SAT core, schedule cubes in parallel) decides over ALL interleavings at source-line "
          "granularity that writers never overlap, every message is written exactly once in per-thread order, nothing stays queued, the lock "
          "is released and no sender blocks; the unwinding assertion is checked, not assumed. Counterexample schedules are replayed on real "
          "threads parked at line events (sys.settrace) and only reported if the real objects show the violation; the model is validated every "
          "run by predicting the line traces of seeded random schedules executed on the real code."),
    note=("Trusted: z3; atomicity of one source statement and of list.append/pop/Lock operations (GIL contract); the CFG lowering (validated by the "
          "conformance obligation). Bounds: quick 2x1 exhaustive, 1x1 with re-entrant send exhaustive, 2x1 with re-entrant send and <=3 pre-emptions; "
          "thorough adds 2x1 re-entrant exhaustive, 2x2 exhaustive and 3x1 with <=3 pre-emptions. More threads/messages and write failures are outside."),
    technique="bounded model checking over all schedules (AST -> CFG -> bit-vector transition relation, z3 SAT) + schedule replay on real threads"),
 "C13": dict(
    category="model_checking", design_ref="DESIGN.md sections 2.3 and 4 (C13)", engine="engine-B",
    text=("Schedule-symbolic bounded model checking of the real _async_request/serve/_dispatch/_seq_request_callback/AsyncResult.wait/__call__/"
          "BgServingThread._bg_server: their ASTs are lowered to statement-level CFGs at every run, executed with a per-thread call stack over a "
          "bit-vector model of the receive lock, the condition variable, the inbox, the callback table and the result fields, against a peer that "
          "may put any outstanding reply on the wire at any step. z3 decides over all schedules within the bound that no frame is dispatched twice, "
          "no request completes with another request's reply or without its own, no reply sits in the inbox while every thread sleeps un-notified, "
          "and nobody-can-move states only occur as the C14 stall. Counterexample schedules are replayed on real threads (sys.settrace gate, "
          "gated Condition, virtual-time channel)."),
    note=("Depth-bounded: all interleavings of the first 64 statement-steps (a complete hand-off by every thread takes about 50); the unwinding "
          "assertion is NOT established and the evidence says so. Quick: 1 waiter + background thread and 2 waiters without one (48 steps), <=1 "
          "pre-emption each; thorough: the same two configurations with <=2 pre-emptions (with unbounded pre-emptions the 64-step query ran for more than 50 min without an answer). Shared integer "
          "fields updated by constants are modelled generically; other new statement shapes make the run inconclusive. Partial-order reduction (no switch before thread-local statements). Timeouts never "
          "fire in the model; itertools.count atomicity, incoming requests and EOF are outside."),
    technique="bounded model checking over schedules (AST -> CFG -> bit-vector transition relation, z3 SAT, parallel cubes) + replay on real threads"),
 "C14": dict(
    category="model_checking", design_ref="DESIGN.md sections 2.3 and 4 (C14)", engine="engine-B",
    text=("Same model as C13; the query is the reachability of a stall state: the waiter's own result is ready while the waiter stands at the "
          "blocking receive statement with an empty inbox (it could then only leave by its timeout or unrelated traffic). z3 finds the schedule in "
          "about half a minute -- the waiter re-enters serve() between the other thread's notify_all() and _dispatch() -- and the schedule is "
          "replayed deterministically on real threads with the real code, where a virtual-time channel records that the waiter would block. This is "
          "a genuine defect of the pinned tree, recorded as a known finding (no small safe repair). A second query asks separately for stalls in which the "
          "waiter's result was already there when it took the receive lock: that shape exists too (the waiter tests readiness, is pre-empted across "
          "the other thread's receive AND dispatch, then blocks) and is recorded as a second finding of the same root cause; a stall of any other "
          "shape would still fail the check."),
    note=("Trusted as for C13. 1 waiter + 1 background serving thread (2 serve iterations) + peer, 60 statement-steps, <=2 pre-emptions quick / "
          "exhaustive thorough. Only the robust stall shape (blocked in the receive statement holding the receive lock) is queried; the "
          "asleep-in-Condition.wait shape would be an artefact of cutting the background thread off."),
    technique="bounded model checking over schedules + deterministic replay of the counterexample schedule on real threads"),
 "C01": dict(
    category="other", design_ref="DESIGN.md section 4 (C01)",
    text=("Caller role and callee role of a remote call are executed symbolically on the real code (netref __call__/syncreq/sync_request/"
          "async_request/_async_request/_box/_send and serve/_dispatch/_dispatch_request/_unbox/_handle_call/AsyncResult) against a frame-level "
          "peer, with symbolic Int/text/Bool leaves inside four argument shapes (positional, keyword, nested tuples mixing values and references), a "
          "symbolic sequence number and three answer kinds: exactly one CALL request carrying the target and equal (values) / identical (references) "
          "arguments with keyword order preserved, target run exactly once, answer returned/raised exactly. Call trees (nodes alternating between the peers, fan-out<=2, "
          "depth<=2 quick/3 thorough, every combination of raising and catching nodes) are run on two real connections and compared with the same "
          "tree evaluated in one process, including invocation order and mutation through reference arguments."),
    note=("Trusted: z3, interpreter, identity codec and frame list standing in for brine/Channel (C04/C05). The call-tree obligation is exhaustive "
          "enumeration with native execution -- there the solver decides nothing; deeper trees are argued by uniform re-entrancy, not proved."),
    technique="symbolic execution of the Python AST for one hop (z3) + exhaustive differential execution of call trees on real connections"),
 "C03": dict(
    category="other", design_ref="DESIGN.md section 4 (C03)",
    text=("The real Connection._box/brine.dumpable/get_id_pack decision is executed symbolically on values whose kind is chosen exhaustively at "
          "every position (9 plain leaf kinds, tuple/frozenset/slice, 17 non-plain witness types incl. enum member, named tuple and str/int/bytes/"
          "tuple/frozenset subclass instances, own and foreign proxies) with symbolic contents, against the property's decision table: VALUE iff "
          "plain (type-exact), TUPLE member-wise, LOCAL_REF for the connection's own proxies, otherwise REMOTE_REF entered in the local object table. "
          "Identity (echo is the original, re-receipt is the same proxy, mutation reaches the owner) is run over all histories of length 4 (quick)/5 "
          "(thorough) x 12 object kinds (truthy and falsy targets) on two real connections; obtain/deliver are executed for 8 object kinds."),
    note=("Trusted: z3, interpreter. Only O1 is solver-decided; O2/O3 are exhaustive enumeration / direct execution on real connections "
          "(a loopback socket for O3). Nesting depth 1 (quick)/2 (thorough), arity <= 2."),
    technique="symbolic execution of the Python AST (boxing decision) + exhaustive differential histories on real connections"),
 "C10": dict(
    category="other", design_ref="DESIGN.md section 4 (C10)",
    text=("Inductive step with symbolic counts on the real code: from an arbitrary state (owner's count, proxy's count, references in flight and "
          "up to two release notices in flight as solver Ints, slot present / proxy alive as choices) satisfying the reference-count invariant, each "
          "real transition -- _box again, _unbox (cached or fresh proxy), BaseNetref.__del__ sending its whole count, _handle_del/decref, an "
          "asynchronous reply carrying the reference being delivered and its result dropped unread -- must "
          "re-establish it (z3, LIA); the invariant implies that live proxies resolve and that the table is empty at quiescence. Cross-check and "
          "replay vehicle: every history of <=6 events over {box object 0/1, peer consumes next item, peer drops a proxy, owner consumes next "
          "frame} on two real connections with manual frame delivery, i.e. all relative orders of the two one-way streams incl. a release crossing "
          "a fresh reference."),
    note=("Trusted: z3, interpreter, the induction principle and the stated invariant; histories are exhaustive enumeration with native execution "
          "(gc.collect at drop events). Connection close is C11; a GC racing the weak cache on another thread is outside."),
    technique="inductive invariant step by symbolic execution of the Python AST + z3 (LIA); exhaustive bounded histories on real connections"),
 "C07": dict(
    category="other", design_ref="DESIGN.md section 4 (C07)",
    text=("Per-message obligations under the default configuration, executed symbolically on the real _unbox / _dispatch_request / all 20 "
          "handlers / _dispatch / vinegar.load: the boxing label and the handler number are unconstrained solver Ints, peer-chosen names unbounded "
          "Strings, attribute existence an uninterpreted predicate; payloads and argument shapes (13 shapes mixing lent objects, names, values, "
          "tuples, identifiers; valid/stale/foreign/forged identifiers) are exhaustive choices. Assertions: nothing but objects lent on this "
          "connection or proxies bound to it can be obtained; every attribute touch/call on a lent object is permitted by the default policy oracle; "
          "pickle, __import__, eval/exec (effect-logged sinks) are never reached; one response frame; other connections' tables untouched. "
          "O4: a reference with a peer-chosen class (str, bytes, a str subclass, int) in the name/operator position, with every nested question the "
          "victim asks about it (<=10) answered by a lie chosen exhaustively: touches still obey the policy."),
    note=("Trusted: z3, interpreter, identity codec/frame list (C04/C05), spy objects abstracting lent objects. The library's own fixed "
          "introspection reads while boxing (____id_pack__, ____conn__, __name__, __class__, __module__) are not counted as peer-directed accesses. "
          "Peer-chosen texts that get unpacked character-wise are enumerated up to 3 characters. What a lent callable does when legitimately "
          "called and denial of service are outside."),
    technique="symbolic execution of the Python AST with symbolic label/handler/name + z3 (strings, UF); effect-log oracles; replay on CPython"),
 "C11": dict(
    category="other", design_ref="DESIGN.md section 4 (C11)",
    text=("Teardown paths of the real Connection executed symbolically/exhaustively: every way of ending (close(), being told to close, EOF while "
          "serving) x before_closed hook outcome (absent/ok/raises/re-enters close) x outcome of sending the close request (ok/EOFError/other) "
          "with close_catchall a solver Bool: closed, disconnect hook exactly once, tables released, channel closed, closing again a no-op, "
          "exceptions escape only when permitted. Fault positions: for three workloads (sync request, async request collected later, nested "
          "callback) against a frame-level peer, the f-th transport operation (every f) fails with EOFError; in virtual time nothing hangs, no "
          "request returns a value the peer did not send, a failure met while serving closes the connection and runs the hook once, later requests "
          "fail. Both sides closing in either order / abrupt loss are run on two real connections."),
    note=("Trusted: interpreter, identity codec/frame list, virtual clock; mid-packet failures are reduced to failing transport operations by C05's "
          "stream contract. The fault position is an exhaustive finite choice (<=12 quick/16 thorough operations), the solver decides only the "
          "close_catchall/timeout arithmetic. `closed` observed by a third thread during close() is outside."),
    technique="symbolic/exhaustive execution of the Python AST with injected transport faults + z3; replay on CPython"),
 "C02": dict(
    category="other", design_ref="DESIGN.md section 4 (C02)",
    text=("Buffered iteration is decided symbolically: the real helpers.buffiter and Connection._handle_buffiter with chunk and max_chunk as solver "
          "Ints (>= 1), factor in {1,2,3} and a remote iterator of every length up to the bound must yield exactly the remote items in order. "
          "Operation transparency is checked differentially: every sequence of <=2 (quick)/3 (thorough) operations from per-type pools (8 target "
          "types: list, dict, set, bytearray, deque, generator, text file, a user class with operators/properties/context manager; 14-36 operations "
          "each incl. IndexError/KeyError/TypeError/AttributeError cases; operands immutable or living on the target's side as the property requires) "
          "is applied through a real connection pair and to a local twin under classic, public and default configuration; results, exception "
          "classes and the final target state must agree. Forwarder completeness is checked for 90 data-model and ordinary method names."),
    note=("Only O3 is solver-decided; O1/O2 are exhaustive enumeration / differential execution on real connections, as DESIGN.md states for "
          "this property. Operations that go through C-level protocols a proxy cannot carry (buffer protocol) and operands that are mutable "
          "objects of the caller's side are outside the property. A genuine defect (exception record with a failing repr tears the connection "
          "down) was first exposed here and is recorded under C08."),
    technique="symbolic execution of the Python AST (buffered iteration, z3 LIA) + exhaustive differential operation sequences on real connections"),
 "C16": dict(
    category="other", design_ref="DESIGN.md section 4 (C16)",
    text=("Bounded symbolic execution of the real rpyc/utils/server.py (accept loop, per-client thread/process, thread-pool poller/workers/"
          "bookkeeping; AST re-read from /repo each run) over a model of sockets, threads, processes and time: every history of 3 (quick)/4 "
          "(thorough) external events over {well-behaved client connects / calls / leaves gracefully or abruptly, clients sending an absurd "
          "length field, corrupt compressed data, an undecodable payload, a truncated header, resetting before the server looks, staying silent, "
          "failing authentication, a protocol-speaking client that answers the server's nested INSPECT question with an exception reply naming "
          "KeyboardInterrupt/SystemExit} x {threaded, thread-pool, forking} x {no authenticator, token-reading authenticator, authenticator handing "
          "back a new socket object as ssl wrapping does} x (thread pool) {disconnect hooks return at once / take until the next event}; descriptor "
          "numbers are reused as a kernel does; after each history a fresh "
          "well-behaved client must be accepted and answered by its own service instance, the accept loop and pool threads must be alive, "
          "earlier well-behaved clients must have been answered. O2: the errno of a failing accept() is a solver Int -- on every path where the "
          "server stops accepting, z3 must prove it is none of the errnos clients can provoke. Counterexample histories are re-executed by CPython on the real server.py; "
          "the defects found are also demonstrated on real sockets (live/)."),
    note=("Reduced scope, as DESIGN.md states: the decision variables are the history and the fault kind (finite, explored exhaustively by the "
          "path explorer); the byte strings of misbehaving clients are concrete representatives per failure class -- arbitrary bytes at the "
          "connection level are C04/C05/C07/C08 -- so the solver decides no data here. One settled interleaving per history; real kernels, "
          "descriptor exhaustion, a pool worker pinned by a partial frame that never completes, one-shot and gevent servers are outside. "
          "Trusted: the environment model (props/srv_world.py), interpreter (validated against CPython on 32 histories every run). "
          "Known finding: a thread-pool server authenticates on its accept thread. Two genuine defects were found and repaired in /repo: "
          "client-provocable accept() errors shut the server down (O2); a thread-pool client reusing the descriptor number of a departed client "
          "whose disconnect hook is still running was dropped in its place (O1)."),
    technique="bounded symbolic execution of server.py over a modelled socket/thread/process environment (history and fault kind as decision variables); replay on CPython, live demonstration on real sockets"),
 "C17": dict(
    category="other", design_ref="DESIGN.md section 4 (C17)",
    text=("Bounded symbolic execution of the real rpyc/utils/server.py (Server.start/accept/close/_authenticate_and_serve_client/_serve_client, "
          "the four _accept_method variants incl. the forking parent and child branches, ThreadPoolServer poller/workers/_drop_connection/close) "
          "over a model of sockets, threads, processes (fork duplicates descriptors) and time: every history of 3 (quick)/4 (thorough) external "
          "events over {client connects / calls / leaves gracefully / leaves abruptly, silent client, client failing authentication, client that "
          "resets before the server looks, close()} x 4 server classes x {no authenticator, token-reading authenticator, authenticator handing back "
          "a new socket object as ssl wrapping does} x (thread pool) {fast / slow disconnect hooks}, then close(): departed clients "
          "are served by nobody and mentioned in no table (clients, fd_to_conn, poll registrations); after close() the listener is closed, every "
          "connected client observes end-of-stream, every disconnect hook ran exactly once, tables are empty, server threads have ended, closing "
          "again is harmless; a one-shot server accepts one connection and shuts down when it ends."),
    note=("Reduced scope, as DESIGN.md states: decision variables are the history and the configuration (finite, explored exhaustively); one "
          "settled interleaving per history; /proc/self/fd accounting, TCP promptness, SIGCHLD reaping, unix-socket path cleanup and races with a "
          "thread that has not reached its next blocking call are outside. Trusted: environment model, interpreter (validated against CPython on 32 "
          "histories every run), 'shut down and unreferenced = released'. Three genuine defects were found here and repaired in /repo (thread-pool "
          "close() left clients connected; thread-pool kept a table entry for a failed client; close() could not reach clients whose authenticator "
          "returned a new socket object); ForkingServer.close() leaving its children serving is a recorded known finding (live demonstration under live/)."),
    technique="bounded symbolic execution of server.py over a modelled socket/thread/process environment (history as decision variables); replay on CPython, live demonstration on real sockets/processes"),
}

NOT_YET = {}

def main():
    props = [json.loads(l) for l in open(os.path.join(ROOT, "properties.jsonl"))]
    na_reasons = json.load(open(os.path.join(ROOT, "tools", "not_applicable.json")))
    checks = []
    na = []
    for p in props:
        pid = p["id"]
        if pid in CHECKS:
            c = CHECKS[pid]
            checks.append(dict(
                property_id=pid,
                quick_cmd="./check %s quick" % pid,
                thorough_cmd="./check %s thorough" % pid,
                evidence_file="/verif/evidence/%s.json" % pid,
                replay_cmd_template="/venv/bin/python {path}",
                engine=c.get("engine", "engine-S"),
                level_claimed=dict(category=c["category"], text=c["text"], design_ref=c["design_ref"]),
                level_note=c["note"],
                technique=c["technique"]))
        else:
            na.append(dict(property_id=pid, reason=na_reasons.get(pid, "check not built yet in this round (solver-based harness pending); not claimed")))
    m = dict(
        version=1,
        setup_cmd="./setup.sh",
        hooks=dict(guard="RPYC_VERIF", enable="none needed: checks read /repo's sources and use in-memory transports / sys.settrace",
                   baseline_off_cmd="cd /repo && /venv/bin/python -m pytest -ra -q -p no:cacheprovider --timeout=900 --continue-on-collection-errors",
                   source_commits=[], add_only=True),
        engines=[
            dict(name="engine-S", path="engine/interp.py", serves_properties=sorted(k for k, v in CHECKS.items() if v.get("engine", "engine-S") == "engine-S"),
                 kind_free_text="path-forking symbolic interpreter over the Python AST of the real rpyc functions; z3 decides every data-dependent branch and obligation; finite choices (histories, shapes, fault kinds) are decision variables enumerated by the explorer"),
            dict(name="engine-B", path="engine/bmc.py", serves_properties=sorted(k for k, v in CHECKS.items() if v.get("engine") == "engine-B"),
                 kind_free_text="schedule-symbolic bounded model checking (bit-vector transition relation compiled from the AST), replay by sys.settrace-gated real threads"),
        ],
        checks=checks,
        notes="See DESIGN.md. Exit codes: 0 held, 1 reproduced violation, 2 inconclusive, 3 harness error.",
        not_applicable=na)
    json.dump(m, open(os.path.join(ROOT, "MANIFEST.json"), "w"), indent=1)
    print("checks:", [c["property_id"] for c in checks], "not_applicable:", [n["property_id"] for n in na])

if __name__ == "__main__":
    main()
