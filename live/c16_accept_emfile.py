"""Live demonstration (real sockets, no model) for property C16: clients that merely connect and hold their
connections open until the server process runs out of descriptors make accept() fail with EMFILE; the accept
loop must survive that (keep serving the clients it has, accept again once descriptors are free).

usage: PYTHONPATH=<rpyc tree> /venv/bin/python c16_accept_emfile.py
exit 1 + REPRODUCED when the server has shut itself down.
"""
import os, sys, socket, time, threading, logging, resource, subprocess
sys.path.insert(0, os.environ.get("VERIF_REPO", "/repo"))

if len(sys.argv) > 1 and sys.argv[1] == "hog":
    # the misbehaving clients: connect N times, hold everything open until told to stop
    port, n = int(sys.argv[2]), int(sys.argv[3])
    socks = []
    for _ in range(n):
        try:
            socks.append(socket.create_connection(("127.0.0.1", port), timeout=2))
        except Exception:
            pass
    sys.stdout.write("held %d\n" % len(socks)); sys.stdout.flush()
    sys.stdin.readline()
    sys.exit(0)

import rpyc
from rpyc.utils.server import ThreadedServer
logging.disable(logging.CRITICAL)


class Svc(rpyc.Service):
    def exposed_ping(self):
        return "pong"


srv = ThreadedServer(Svc, hostname="127.0.0.1", port=0, auto_register=False)
th = srv._start_in_thread()
good = rpyc.connect("127.0.0.1", srv.port, config=dict(sync_request_timeout=5))
assert good.root.ping() == "pong"
soft, hard = resource.getrlimit(resource.RLIMIT_NOFILE)
used = len(os.listdir("/proc/self/fd"))
resource.setrlimit(resource.RLIMIT_NOFILE, (used + 12, hard))          # room for a dozen more descriptors
hog = subprocess.Popen([sys.executable, __file__, "hog", str(srv.port), "40"], stdin=subprocess.PIPE, stdout=subprocess.PIPE, close_fds=True)
print("misbehaving clients:", hog.stdout.readline().decode().strip())
time.sleep(1.0)
print("accept loop alive:", th.is_alive(), "| server active:", srv.active)
try:
    still = good.root.ping()
except Exception as e:
    still = repr(e)
print("the client that was connected before still gets:", still)
hog.stdin.write(b"\n"); hog.stdin.flush(); hog.wait()                # the hogs go away: descriptors are free again
resource.setrlimit(resource.RLIMIT_NOFILE, (soft, hard))
time.sleep(1.0)
try:
    c = rpyc.connect("127.0.0.1", srv.port, config=dict(sync_request_timeout=5))
    new = c.root.ping()
except Exception as e:
    new = repr(e)
print("a new client after the hogs left gets:", new)
if still != "pong" or new != "pong" or not th.is_alive():
    print("REPRODUCED")
    os._exit(1)
os._exit(0)
