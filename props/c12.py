"""C12 -- concurrent senders never interleave, lose or strand a message.

Encoded (CFG compiled from the AST of the real Connection._send at every run).
Environment: brine.dump (returns the message), channel.send split into
begin-write / end-write with an optional re-entrant _send in between.
"""
import os
import random
import sys
import time

import z3

from engine import core
from engine.bmc import CFG, BMC, State, EXIT, RAISED, bv
from engine.core import Unsupported, HarnessError
from engine.harness import Run, Obligation
import ast

W = 6          # width of message ids / counters (narrowed per configuration in SendModel.__init__)
PCW = 8


class SendModel(object):
    """finite-state semantics of the statements of Connection._send"""

    def __init__(self, cfg, nthreads, nmsgs, reentrant, qcap=None):
        self.cfg = cfg
        self.T = nthreads
        self.Ms = list(nmsgs) if isinstance(nmsgs, (list, tuple)) else [nmsgs] * nthreads
        self.M = max(self.Ms)
        self.R = 1 if reentrant else 0          # re-entrant sends per thread
        self.reentrant = reentrant
        self.ids = []                            # all message ids
        self.main_ids = {}
        k = 1
        for t in range(nthreads):
            self.main_ids[t] = list(range(k, k + self.Ms[t]))
            k += self.Ms[t]
        self.nested_ids = {}
        for t in range(nthreads):
            self.nested_ids[t] = list(range(k, k + self.R))
            k += self.R
        self.N = k - 1
        self.Q = qcap or self.N
        global W, PCW
        W = max(2, (self.N + 1).bit_length())
        PCW = max(2, (max(cfg.nodes) + 1).bit_length())
        self.step_no = 0
        self.inputs = []
        self.llist = self.scan_local_list(cfg)
        self.lbools = self.scan_local_bools(cfg)

    @staticmethod
    def is_queue_snapshot(e):
        """self._send_queue[:]  /  list(self._send_queue)  /  self._send_queue.copy()"""
        def is_q(x):
            return isinstance(x, ast.Attribute) and isinstance(x.value, ast.Name) and x.value.id == "self" and x.attr == "_send_queue"
        if isinstance(e, ast.Subscript) and is_q(e.value) and isinstance(e.slice, ast.Slice) and e.slice.lower is None and e.slice.upper is None and e.slice.step is None:
            return True
        if isinstance(e, ast.Call) and isinstance(e.func, ast.Name) and e.func.id in ("list", "tuple") and len(e.args) == 1 and is_q(e.args[0]):
            return True
        if isinstance(e, ast.Call) and isinstance(e.func, ast.Attribute) and e.func.attr == "copy" and is_q(e.func.value) and not e.args:
            return True
        return False

    def scan_local_bools(self, cfg):
        """local flag variables (assigned a constant, bool(queue), not queue, ...): one Bool per frame each"""
        names = set()
        for l, n in cfg.nodes.items():
            st = n.ast
            if n.kind == "stmt" and isinstance(st, ast.Assign) and len(st.targets) == 1 and isinstance(st.targets[0], ast.Name):
                nm = st.targets[0].id
                if nm != "data" and not self.is_queue_snapshot(st.value):
                    names.add(nm)
        return sorted(names)

    def scan_local_list(self, cfg):
        """name of the (one) local variable that holds a snapshot of the send queue, or None"""
        names = set()
        for l, n in cfg.nodes.items():
            st = n.ast
            if n.kind == "stmt" and isinstance(st, ast.Assign) and len(st.targets) == 1 and isinstance(st.targets[0], ast.Name) and self.is_queue_snapshot(st.value):
                names.add(st.targets[0].id)
        if len(names) > 1:
            raise Unsupported("engine B: more than one local snapshot of the send queue")
        return names.pop() if names else None

    # ---- state -------------------------------------------------------------------
    def init(self):
        v = {}
        v["qlen"] = bv(0, W)
        for i in range(self.Q):
            v["q%d" % i] = bv(0, W)
        v["lock"] = z3.BoolVal(False)
        v["writing"] = bv(0, W)
        v["wn"] = bv(0, W)
        v["overlap"] = z3.BoolVal(False)
        v["err"] = z3.BoolVal(False)
        for i in range(1, self.N + 1):
            v["cnt%d" % i] = bv(0, 2)
            v["pos%d" % i] = bv(0, W)
            v["iss%d" % i] = z3.BoolVal(False)
        for t in range(self.T):
            v["depth%d" % t] = bv(1, 2)
            v["next%d" % t] = bv(1, W)
            v["nested%d" % t] = bv(0, W)
            for d in (0, 1):
                v["pc%d_%d" % (t, d)] = bv(self.cfg.entry if d == 0 else 0, PCW)
                v["data%d_%d" % (t, d)] = bv(0, W)
                v["msg%d_%d" % (t, d)] = bv(self.main_ids[t][0] if d == 0 else 0, W)
                for nm in self.lbools:
                    v["lb_%s_%d_%d" % (nm, t, d)] = z3.BoolVal(False)
                if self.llist is not None:
                    for i in range(self.Q):
                        v["ll%dx%d_%d" % (i, t, d)] = bv(0, W)   # local snapshot of the queue
                    v["lln%d_%d" % (t, d)] = bv(0, W)            # its length
                    v["lli%d_%d" % (t, d)] = bv(0, W)            # position of the for-loop over it
                v["ws%d_%d" % (t, d)] = z3.BoolVal(False)       # write begun by this frame
                v["re%d_%d" % (t, d)] = z3.BoolVal(False)       # re-entrant send already used in this write
            v["iss%d" % self.main_ids[t][0]] = z3.BoolVal(True)
        return v

    def finished(self, S, t):
        return S.v["depth%d" % t] == 0

    # ---- helpers ------------------------------------------------------------------
    def loc(self, S, t, name):
        d2 = S.v["depth%d" % t] == 2
        return z3.If(d2, S.v["%s%d_1" % (name, t)], S.v["%s%d_0" % (name, t)])

    def setloc(self, Wk, S, t, name, val, guard=None):
        d2 = S.v["depth%d" % t] == 2
        g0 = z3.Not(d2) if guard is None else z3.And(guard, z3.Not(d2))
        g1 = d2 if guard is None else z3.And(guard, d2)
        Wk.set("%s%d_0" % (name, t), val, g0)
        Wk.set("%s%d_1" % (name, t), val, g1)

    def q_push(self, Wk, x):
        n = Wk.v["qlen"]
        Wk.set("err", True, n == self.Q)
        for i in range(self.Q):
            Wk.set("q%d" % i, x, n == i)
        Wk.set("qlen", n + 1)

    def q_pop0(self, Wk):
        n = Wk.v["qlen"]
        Wk.set("err", True, n == 0)
        self._raised.append(n == 0)          # IndexError: pop from empty list
        x = Wk.v["q0"]
        for i in range(self.Q - 1):
            Wk.v["q%d" % i] = Wk.v["q%d" % (i + 1)]
        Wk.v["q%d" % (self.Q - 1)] = bv(0, W)
        Wk.set("qlen", n - 1)
        return x

    # ---- expression / statement semantics ----------------------------------------------
    def path(self, e):
        """dotted path of an attribute chain, e.g. self._sendlock.acquire"""
        parts = []
        while isinstance(e, ast.Attribute):
            parts.append(e.attr)
            e = e.value
        if isinstance(e, ast.Name):
            parts.append(e.id)
            return ".".join(reversed(parts))
        raise Unsupported("engine B: expression %s" % ast.dump(e)[:80])

    def ev(self, e, Wk, S, t):
        """value of expression e (z3 term); effects are applied to Wk"""
        if isinstance(e, ast.UnaryOp) and isinstance(e.op, ast.Not):
            return z3.Not(self.truth_of(e.operand, Wk, S, t))
        if isinstance(e, ast.Constant):
            if isinstance(e.value, bool):
                return z3.BoolVal(e.value)
            if isinstance(e.value, int):
                return bv(e.value, W)
            raise Unsupported("engine B: constant %r" % (e.value,))
        if isinstance(e, ast.Name):
            if e.id == "data":
                return self.loc(Wk, t, "data")
            if e.id in self.lbools:
                d2 = Wk.v["depth%d" % t] == 2
                return z3.If(d2, Wk.v["lb_%s_%d_1" % (e.id, t)], Wk.v["lb_%s_%d_0" % (e.id, t)])
            raise Unsupported("engine B: name %s" % e.id)
        if isinstance(e, ast.Attribute):
            p = self.path(e)
            if p == "self._send_queue":
                return ("queue",)
            raise Unsupported("engine B: attribute %s" % p)
        if isinstance(e, ast.Call):
            p = self.path(e.func)
            if p == "brine.dump":
                return self.loc(Wk, t, "msg")
            if p == "bool" and len(e.args) == 1:
                return self.truth_of(e.args[0], Wk, S, t)
            if p == "len" and len(e.args) == 1 and isinstance(e.args[0], ast.Attribute) and self.path(e.args[0]) == "self._send_queue":
                return Wk.v["qlen"]
            if p == "self._send_queue.append":
                x = self.ev(e.args[0], Wk, S, t)
                self.q_push(Wk, x)
                return None
            if p == "self._send_queue.pop":
                if not (len(e.args) == 1 and isinstance(e.args[0], ast.Constant) and e.args[0].value == 0):
                    raise Unsupported("engine B: queue.pop with argument other than 0")
                return self.q_pop0(Wk)
            if p == "self._sendlock.acquire":
                blocking = not (e.args and isinstance(e.args[0], ast.Constant) and e.args[0].value is False)
                if e.keywords or len(e.args) > 1:
                    raise Unsupported("engine B: acquire() with a timeout")
                got = z3.Not(Wk.v["lock"])
                if blocking:
                    self._blocked.append(Wk.v["lock"])       # enabled only while the lock is free
                Wk.set("lock", True, got)
                return z3.BoolVal(True) if blocking else got
            if p == "self._sendlock.release":
                Wk.set("err", True, z3.Not(Wk.v["lock"]))
                self._raised.append(z3.Not(Wk.v["lock"]))   # RuntimeError: release unlocked lock
                Wk.set("lock", False)
                return None
            raise Unsupported("engine B: call %s" % p)
        if isinstance(e, ast.Compare) and len(e.ops) == 1:
            l, r = self.ev(e.left, Wk, S, t), self.ev(e.comparators[0], Wk, S, t)
            if z3.is_bv(l) and z3.is_bv(r):
                tbl = {ast.Eq: lambda: l == r, ast.NotEq: lambda: l != r, ast.Gt: lambda: z3.UGT(l, r), ast.GtE: lambda: z3.UGE(l, r),
                       ast.Lt: lambda: z3.ULT(l, r), ast.LtE: lambda: z3.ULE(l, r)}
                if type(e.ops[0]) in tbl:
                    return tbl[type(e.ops[0])]()
        if isinstance(e, ast.BoolOp):
            vals = [self.truth_of(x, Wk, S, t) for x in e.values]
            return z3.And(*vals) if isinstance(e.op, ast.And) else z3.Or(*vals)
        raise Unsupported("engine B: expression %s" % type(e).__name__)

    def truth(self, v):
        if isinstance(v, tuple) and v[0] == "queue":
            return None
        if z3.is_bool(v):
            return v
        return v != 0

    def truth_of(self, e, Wk, S, t):
        v = self.ev(e, Wk, S, t)
        if isinstance(v, tuple) and v[0] == "queue":
            return Wk.v["qlen"] != 0
        return self.truth(v)

    def is_channel_send(self, node):
        s = node.ast
        return node.kind == "stmt" and isinstance(s, ast.Expr) and isinstance(s.value, ast.Call) and \
            isinstance(s.value.func, ast.Attribute) and self.path(s.value.func) == "self._channel.send"

    def goto(self, Wk, S, t, label):
        """set the program counter of the current frame (or leave the function)"""
        if label == EXIT or label == RAISED:
            d2 = S.v["depth%d" % t] == 2
            # nested frame returns to the writer; outer frame starts the next message or finishes
            nxt = S.v["next%d" % t]
            more = z3.ULT(nxt, self.Ms[t])
            Wk.set("depth%d" % t, 1, d2)
            # outer frame
            ids = self.main_ids[t]
            nmsg = bv(0, W)
            for j, mid in enumerate(ids):
                nmsg = z3.If(nxt == j, bv(mid, W), nmsg)
            g_more = z3.And(z3.Not(d2), more)
            g_done = z3.And(z3.Not(d2), z3.Not(more))
            Wk.set("pc%d_0" % t, self.cfg.entry, g_more)
            Wk.set("msg%d_0" % t, nmsg, g_more)
            Wk.set("next%d" % t, nxt + 1, g_more)
            for j, mid in enumerate(ids):
                Wk.set("iss%d" % mid, True, z3.And(g_more, nxt == j))
            Wk.set("depth%d" % t, 0, g_done)
            return
        self.setloc(Wk, S, t, "pc", bv(label, PCW))

    def step(self, S, t, inputs=None):
        """thread t executes the statement at its program counter"""
        self.step_no += 1
        reenter = z3.Bool("reenter_%d_%d" % (self.step_no, t)) if self.reentrant else z3.BoolVal(False)
        self.inputs.append(reenter)
        pc = self.loc(S, t, "pc")
        result = None
        blocked = []
        for label, node in sorted(self.cfg.nodes.items()):
            Wk = S.copy()
            self._raised = []
            self._blocked = []
            self.exec_node(node, Wk, S, t, reenter)
            for b in self._blocked:
                blocked.append(z3.And(pc == label, b))
            if result is None:
                result = Wk
            else:
                for k in result.v:
                    if not z3.eq(Wk.v[k], S.v[k]) or not z3.eq(result.v[k], S.v[k]):
                        result.v[k] = z3.If(pc == label, Wk.v[k], result.v[k])
        enabled = z3.Not(z3.Or(*blocked)) if blocked else z3.BoolVal(True)
        return enabled, result

    def exec_node(self, node, Wk, S, t, reenter):
        k = node.kind
        if self.is_channel_send(node):
            data = self.ev(node.ast.value.args[0], Wk, S, t)
            begun = self.loc(S, t, "ws")
            # phase 0: begin the write
            g0 = z3.Not(begun)
            Wk.set("overlap", True, z3.And(g0, S.v["writing"] != 0))
            Wk.set("writing", data, g0)
            self.setloc(Wk, S, t, "ws", z3.BoolVal(True), g0)
            # phase 1: re-enter _send once, or finish the write
            used = self.loc(S, t, "re")
            can_re = z3.And(begun, reenter, z3.Not(used), S.v["depth%d" % t] == 1) if self.reentrant else z3.BoolVal(False)
            if self.reentrant:
                nid = bv(self.nested_ids[t][0], W)
                fresh = S.v["nested%d" % t] == 0
                can_re = z3.And(can_re, fresh)
                Wk.set("re%d_0" % t, True, can_re)
                Wk.set("nested%d" % t, nid, can_re)
                Wk.set("depth%d" % t, 2, can_re)
                Wk.set("pc%d_1" % t, self.cfg.entry, can_re)
                Wk.set("msg%d_1" % t, nid, can_re)
                Wk.set("ws%d_1" % t, False, can_re)
                Wk.set("re%d_1" % t, False, can_re)
                Wk.set("iss%d" % self.nested_ids[t][0], True, can_re)
            g1 = z3.And(begun, z3.Not(can_re))
            wn = S.v["wn"]
            for i in range(1, self.N + 1):
                hit = z3.And(g1, data == i)
                c = S.v["cnt%d" % i]
                Wk.set("cnt%d" % i, z3.If(c == 3, c, c + 1), hit)
                Wk.set("pos%d" % i, wn, hit)
            Wk.set("wn", wn + 1, g1)
            Wk.set("writing", 0, g1)
            self.setloc(Wk, S, t, "ws", z3.BoolVal(False), g1)
            self.setloc(Wk, S, t, "re", z3.BoolVal(False), g1)
            # pc advances only when the write ends
            W2 = Wk.copy()
            self.goto(W2, S, t, node.succ["next"])
            for key in Wk.v:
                if not z3.eq(W2.v[key], Wk.v[key]):
                    Wk.v[key] = z3.If(g1, W2.v[key], Wk.v[key])
            return
        if k == "stmt":
            s = node.ast
            if isinstance(s, ast.Assign) and len(s.targets) == 1 and isinstance(s.targets[0], ast.Name) and s.targets[0].id == self.llist \
                    and self.is_queue_snapshot(s.value):
                for i in range(self.Q):
                    self.setloc(Wk, S, t, "ll%dx" % i, S.v["q%d" % i])
                self.setloc(Wk, S, t, "lln", S.v["qlen"])
                self.setloc(Wk, S, t, "lli", bv(0, W))
            elif isinstance(s, ast.Delete) or (isinstance(s, ast.Expr) and isinstance(s.value, ast.Call) and isinstance(s.value.func, ast.Attribute)
                                               and s.value.func.attr == "clear"):
                # del self._send_queue[:]  /  self._send_queue.clear()
                tg = s.targets[0] if isinstance(s, ast.Delete) else s.value.func.value
                whole = (isinstance(s, ast.Delete) and len(s.targets) == 1 and isinstance(tg, ast.Subscript) and self.path(tg.value) == "self._send_queue"
                         and isinstance(tg.slice, ast.Slice) and tg.slice.lower is None and tg.slice.upper is None and tg.slice.step is None) or \
                        (not isinstance(s, ast.Delete) and self.path(tg) == "self._send_queue")
                if not whole:
                    raise Unsupported("engine B: statement %s at line %d" % (type(s).__name__, node.lineno))
                for i in range(self.Q):
                    Wk.v["q%d" % i] = bv(0, W)
                Wk.v["qlen"] = bv(0, W)
            elif isinstance(s, ast.Assign) and len(s.targets) == 1 and isinstance(s.targets[0], ast.Name) and s.targets[0].id in self.lbools:
                val = self.truth_of(s.value, Wk, S, t)
                if val is None:
                    raise Unsupported("engine B: value of the flag %s at line %d" % (s.targets[0].id, node.lineno))
                self.setloc(Wk, S, t, "lb_%s_" % s.targets[0].id, val)
            elif isinstance(s, ast.Assign):
                if len(s.targets) != 1 or not isinstance(s.targets[0], ast.Name) or s.targets[0].id != "data":
                    raise Unsupported("engine B: assignment target at line %d" % node.lineno)
                v = self.ev(s.value, Wk, S, t)
                self.setloc(Wk, S, t, "data", v)
            elif isinstance(s, ast.Expr):
                self.ev(s.value, Wk, S, t)
            else:
                raise Unsupported("engine B: statement %s at line %d" % (type(s).__name__, node.lineno))
            if self._raised:
                r = z3.Or(*self._raised)
                Wn, We = Wk.copy(), Wk.copy()
                self.goto(Wn, S, t, node.succ["next"])
                self.goto(We, S, t, node.succ["exc"])
                for key in Wk.v:
                    Wk.v[key] = We.v[key] if z3.eq(Wn.v[key], We.v[key]) else z3.If(r, We.v[key], Wn.v[key])
                return
            self.goto(Wk, S, t, node.succ["next"])
            return
        if k == "branch":
            c = self.truth_of(node.ast, Wk, S, t)
            Wt, Wf = Wk.copy(), Wk.copy()
            self.goto(Wt, S, t, node.succ["true"])
            self.goto(Wf, S, t, node.succ["false"])
            for key in Wk.v:
                if not z3.eq(Wt.v[key], Wf.v[key]):
                    Wk.v[key] = z3.If(c, Wt.v[key], Wf.v[key])
                else:
                    Wk.v[key] = Wt.v[key]
            return
        if k == "return":
            if node.ast.value is not None:
                raise Unsupported("engine B: return with a value in _send")
            self.goto(Wk, S, t, node.succ["next"])
            return
        if k == "nop":
            self.goto(Wk, S, t, node.succ["next"])
            return
        if k == "for":
            st = node.ast
            if not (self.llist is not None and isinstance(st.iter, ast.Name) and st.iter.id == self.llist and isinstance(st.target, ast.Name) and st.target.id == "data"):
                raise Unsupported("engine B: for loop at line %d" % node.lineno)
            i, n_ = self.loc(S, t, "lli"), self.loc(S, t, "lln")
            more = z3.ULT(i, n_)
            item = bv(0, W)
            for j in range(self.Q):
                item = z3.If(i == j, self.loc(S, t, "ll%dx" % j), item)
            Wt, Wf = Wk.copy(), Wk.copy()
            self.setloc(Wt, S, t, "data", item)
            self.setloc(Wt, S, t, "lli", i + 1)
            self.goto(Wt, S, t, node.succ["true"])
            self.setloc(Wf, S, t, "lli", bv(0, W))
            self.goto(Wf, S, t, node.succ["false"])
            for key in Wk.v:
                Wk.v[key] = Wt.v[key] if z3.eq(Wt.v[key], Wf.v[key]) else z3.If(more, Wt.v[key], Wf.v[key])
            return
        raise Unsupported("engine B: location kind %s at line %d" % (k, node.lineno))

    # ---- properties -------------------------------------------------------------------------
    def all_done(self, S):
        return z3.And(*[S.v["depth%d" % t] == 0 for t in range(self.T)])

    def bad_any(self, S):
        return z3.Or(S.v["overlap"], S.v["err"])

    def bad_final(self, S):
        done = self.all_done(S)
        bad = [S.v["qlen"] != 0, S.v["lock"], S.v["writing"] != 0]
        for i in range(1, self.N + 1):
            bad.append(z3.If(S.v["iss%d" % i], S.v["cnt%d" % i] != 1, S.v["cnt%d" % i] != 0))
        for t in range(self.T):
            ids = self.main_ids[t]
            for a, b in zip(ids, ids[1:]):
                bad.append(z3.Not(z3.ULT(S.v["pos%d" % a], S.v["pos%d" % b])))
        return z3.And(done, z3.Or(*bad))

    def not_done(self, S):
        return z3.Not(self.all_done(S))


def build(nthreads, nmsgs, reentrant):
    from rpyc.core.protocol import Connection
    cfg = CFG(Connection._send)
    return cfg, SendModel(cfg, nthreads, nmsgs, reentrant)


def steps_needed(cfg, nthreads, nmsgs, reentrant):
    # per message: entry(2) + per loop iteration <= 7 locations; every message can cause at most
    # (#messages in flight + 1) iterations in total across threads.  Checked by the unwinding assertion.
    msgs = sum(nmsgs) if isinstance(nmsgs, (list, tuple)) else nthreads * nmsgs
    total = msgs + (nthreads if reentrant else 0)
    return 4 * total + 9 * total + (4 if reentrant else 0)


def model_trace(cfg, model, bmc, m):
    """[(tid, action, position)] of the counterexample"""
    sched = bmc.schedule(m)
    out = []
    names = []
    for t in range(model.T):
        names += ["depth%d" % t, "pc%d_0" % t, "pc%d_1" % t, "ws%d_0" % t, "ws%d_1" % t, "nested%d" % t]
    tr = bmc.trace(m, names + ["qlen", "lock", "wn"])
    for i, tid in enumerate(sched):
        row = tr[i]
        d = row["depth%d" % tid]
        if d == 0:
            continue
        pc = row["pc%d_%d" % (tid, d - 1)]
        node = cfg.nodes.get(pc)
        if node is None:
            continue
        if model.is_channel_send(node) and row["ws%d_%d" % (tid, d - 1)]:
            nxt = tr[i + 1]
            act = "reenter" if nxt["depth%d" % tid] == 2 and d == 1 else "end-write"
            out.append((tid, act, "we"))
        else:
            out.append((tid, "line", node.lineno))
    return out


REPLAY = '''# replay of a schedule found by /verif (property C12) on the real rpyc with real threads
import sys, threading
sys.path.insert(0, __import__("os").environ.get("VERIF_REPO", "/repo")); sys.path.insert(0, "/verif")
from engine.sched import Gate, Mismatch
from rpyc.core.protocol import Connection
from rpyc.core.service import VoidService
from rpyc.core import consts, brine
T, M, schedule, lines = %(T)d, %(M)r, %(schedule)r, %(lines)r
Ms = list(M) if isinstance(M, (list, tuple)) else [M] * T
gate = Gate({Connection._send.__code__: set(lines)}, timeout=3.0)
class Chan(object):
    def __init__(self):
        self.frames = []; self.active = None; self.overlap = False; self.nested = 0
    def send(self, data):
        if self.active is not None: self.overlap = True
        self.active = data
        while True:
            g = gate.point("we")
            if g == "reenter":
                self.nested += 1
                conn._send(consts.MSG_REQUEST, 1000 + self.nested, ())
                continue
            break
        self.frames.append(data); self.active = None
    def close(self): pass
chan = Chan()
conn = Connection(VoidService(), chan)
ids = {}; k = 1
for t in range(T):
    ids[t] = list(range(k, k + Ms[t])); k += Ms[t]
def worker(t):
    def run():
        for i in ids[t]:
            conn._send(consts.MSG_REQUEST, i, ())
    return run
gate.start([worker(t) for t in range(T)])
mismatch = None
blocked = False
try:
    for (tid, act, pos) in schedule:
        at = gate.position(tid)
        if at != pos:
            mismatch = "step %%r: thread %%d is at %%r" %% ((tid, act, pos), tid, at); break
        gate.release(tid, grant={"line": True, "end-write": "end", "reenter": "reenter"}[act])
except Mismatch as e:
    if "neither parked nor finished" in str(e): blocked = True     # a real thread blocks: evaluated below
    else: mismatch = str(e)
left = gate.runnable()
done = gate.finish()
sent = [brine.load(f)[1] for f in chan.frames]
issued = [i for t in range(T) for i in ids[t]] + [1000 + j + 1 for j in range(chan.nested)]
print("mismatch:", mismatch, "| written:", sent, "| queued:", len(conn._send_queue), "| lock held:", conn._sendlock.locked(), "| overlap:", chan.overlap)
conn._closed = True
if mismatch:
    print("MODEL-MISMATCH"); sys.exit(3)
bad = []
if left: bad.append("threads still running after the schedule: %%r" %% left)
crashed = [(t, repr(o[1])) for t, o in sorted(done.items()) if o[0] == "exc"]
if crashed: bad.append("a sender raised: %%r" %% crashed)
stuck = [t for t in range(T) if t not in done]
if stuck: bad.append("senders blocked forever: %%r" %% stuck)
'''

REPLAY_CHECK = '''
# the property, evaluated on the real objects after exactly the model's schedule
if chan.overlap: bad.append("two writers overlapped")
if sorted(sent) != sorted(issued): bad.append("written %r vs issued %r" % (sent, issued))
if len(conn._send_queue): bad.append("a message is left queued although every sender has returned")
if conn._sendlock.locked(): bad.append("send lock left held")
for t in range(T):
    pos = [sent.index(i) for i in ids[t] if i in sent]
    if pos != sorted(pos): bad.append("thread %d's messages left out of order" % t)
print(bad)
if bad:
    print("REPRODUCED"); sys.exit(1)
'''


def replay_script(cfg, model, schedule):
    return REPLAY % dict(T=model.T, M=model.Ms, schedule=schedule, lines=cfg.lines()) + REPLAY_CHECK


def run_config(run, ob, T, M, reentrant, timeout_s, max_preempt=None):
    cfg, model = build(T, M, reentrant)
    K = steps_needed(cfg, T, M, reentrant)
    cubes = 4 if T > 1 else 0
    info = dict(threads=T, messages_per_thread=M, reentrant=reentrant, locations=len(cfg.nodes), max_preemptions=max_preempt,
                cubes="first %d schedule choices enumerated, one process per cube" % cubes if cubes else "none")
    info["steps"] = K
    # 0. deadlock freedom within the initial bound (a blocked sender would also defeat the unwinding assertion)
    cfg, model = build(T, M, reentrant)
    bmc = BMC(model, T, K, max_preemptions=max_preempt)
    r, m = bmc.check("deadlock", timeout_ms=timeout_s * 1000)
    info["deadlock@%d" % K] = (r, round(bmc.last_time, 1))
    if r == "unknown":
        raise Unsupported("engine B: deadlock query unknown/timeout for %dx%s" % (T, M))
    if r == "sat":
        sched = model_trace(cfg, model, bmc, m)
        run.replay(ob, "send:deadlock:%dx%s%s" % (T, M, ":reentrant" if reentrant else ""),
                   "a sender blocks forever (%d threads x %s messages%s); schedule: %s" % (T, M, ", re-entrant send" if reentrant else "", sched[:40]),
                   replay_script(cfg, model, sched))
        ob.samples.append(info)
        return cfg, model, bmc, info
    # 1. unwinding assertion: after K steps every thread has returned; K is raised until it holds
    tries = []
    while True:
        cfg, model = build(T, M, reentrant)
        t0 = time.time()
        bmc = BMC(model, T, K, max_preemptions=max_preempt)
        r, m = bmc.check(model.not_done, at="last", timeout_ms=timeout_s * 1000, cubes=cubes)
        tries.append((K, r, round(bmc.last_time, 1)))
        if r == "unsat":
            break
        if r == "unknown":
            raise Unsupported("engine B: unwinding query unknown/timeout for %dx%s at K=%d" % (T, M, K))
        K += 6
        if K > 120:
            raise core.BoundExceeded("engine B: no step bound <= 120 satisfies the unwinding assertion for %dx%s" % (T, M))
    info["steps"] = K
    info["unwinding"] = tries
    # 2. safety at every step and final-state properties (one query)
    r, m = bmc.check("deadlock", timeout_ms=timeout_s * 1000)
    info["deadlock"] = (r, round(bmc.last_time, 1))
    if r == "unknown":
        raise Unsupported("engine B: deadlock query unknown/timeout for %dx%s" % (T, M))
    if r == "sat":
        sched = model_trace(cfg, model, bmc, m)
        run.replay(ob, "send:deadlock:%dx%s%s" % (T, M, ":reentrant" if reentrant else ""),
                   "a sender blocks forever (%d threads x %s messages%s); schedule: %s" % (T, M, ", re-entrant send" if reentrant else "", sched[:40]),
                   replay_script(cfg, model, sched))
        ob.samples.append(info)
        return cfg, model, bmc, info
    r, m = bmc.check(lambda S: z3.Or(model.bad_any(S), model.bad_final(S)), at="any", timeout_ms=timeout_s * 1000, cubes=cubes)
    info["safety+final"] = (r, round(bmc.last_time, 1))
    if r == "unknown":
        raise Unsupported("engine B: safety query unknown/timeout for %dx%s" % (T, M))
    if r == "sat":
        sched = model_trace(cfg, model, bmc, m)
        sig = "send:%dx%s%s" % (T, M, ":reentrant" if reentrant else "")
        run.replay(ob, sig, "interleaving/lost/stranded message for %d threads x %s messages%s; schedule of %d steps: %s" % (
            T, M, " with a re-entrant send" if reentrant else "", len(sched), sched[:40]), replay_script(cfg, model, sched))
    # 3. reachability twin: the final state is reachable at all
    r, m = bmc.check(model.all_done, at="last", timeout_ms=timeout_s * 1000)
    info["reachability"] = r
    if r != "sat":
        raise HarnessError("engine B: reachability twin failed (%s)" % r)
    ob.samples.append(info)
    return cfg, model, bmc, info


def conformance(run, ob, nsched, T, M):
    """seeded random schedules are executed on the real code by the gated replayer and then fed to the
    model: the model must predict the observed line trace and final state"""
    import subprocess
    import json
    cfg, model = build(T, M, True)
    script = CONF % dict(T=T, M=M, lines=cfg.lines(), n=nsched, seed=run.seed)
    p = subprocess.run(["/venv/bin/python", "-c", script], capture_output=True, text=True, timeout=600, env=dict(os.environ, PYTHONPATH=os.environ.get("VERIF_REPO", "/repo")))
    if p.returncode != 0:
        raise HarnessError("conformance driver failed: %s" % (p.stdout + p.stderr)[-400:])
    runs = json.loads(p.stdout.strip().splitlines()[-1])
    K = steps_needed(cfg, T, M, True) + 6
    bmc = BMC(model, T, K)
    ok = 0
    for rec in runs:
        trace = [tuple(x) for x in rec["trace"]]
        # constrain the schedule and inputs to the observed run
        extra = []
        step_inputs = model.inputs
        per_step = len(step_inputs) // K
        for i, (tid, pos, grant) in enumerate(trace):
            extra.append(bmc.sched[i] == tid)
            if model.reentrant:
                extra.append(step_inputs[i * per_step + tid] == (grant == "reenter"))
        r, m = bmc.check(lambda S: z3.BoolVal(True), at="last", timeout_ms=60000, extra=extra)
        if r != "sat":
            raise HarnessError("conformance: model cannot follow observed schedule %r" % (trace[:12],))
        pred = model_trace(cfg, model, bmc, m)[:len(trace)]
        got = [(tid, pos) for (tid, pos, g) in trace]
        if [(a, c) for (a, b, c) in pred] != got:
            for j, (x, y) in enumerate(zip([(a, c) for (a, b, c) in pred], got)):
                if x != y:
                    raise HarnessError("conformance: model predicts %r, real code did %r at step %d of %r" % (x, y, j, got[:j + 1]))
            raise HarnessError("conformance: trace lengths differ (model %d, real %d)" % (len(pred), len(got)))
        final = bmc.trace(m, ["wn", "qlen"])[len(trace)]
        if final["wn"] != rec["written"] or final["qlen"] != rec["queued"]:
            raise HarnessError("conformance: final state differs: model %r, real %r" % (final, rec))
        ok += 1
    return ok


CONF = '''
import sys, random, json
sys.path.insert(0, __import__("os").environ.get("VERIF_REPO", "/repo")); sys.path.insert(0, "/verif")
from engine.sched import Gate
from rpyc.core.protocol import Connection
from rpyc.core.service import VoidService
from rpyc.core import consts, brine
T, M, lines, N, seed = %(T)d, %(M)d, %(lines)r, %(n)d, %(seed)d
rng = random.Random(seed)
out = []
for it in range(N):
    gate = Gate({Connection._send.__code__: set(lines)})
    class Chan(object):
        def __init__(self): self.frames = []; self.nested = {}
        def send(self, data):
            import threading
            while True:
                g = gate.point("we")
                if g == "reenter":
                    conn._send(consts.MSG_REQUEST, 1000, ()); continue
                break
            self.frames.append(data)
        def close(self): pass
    chan = Chan(); conn = Connection(VoidService(), chan)
    def worker(t):
        def run():
            for i in range(M): conn._send(consts.MSG_REQUEST, t * 10 + i, ())
        return run
    gate.start([worker(t) for t in range(T)])
    trace = []; reentered = set()
    while True:
        r = gate.runnable()
        if not r: break
        tid = rng.choice(r)
        pos = gate.position(tid)
        grant = True
        if pos == "we":
            grant = "end"
            if tid not in reentered and rng.random() < 0.3 and not any(t == tid and p != "we" for (t, p, g) in trace[-1:]):
                pass
        trace.append((tid, pos, grant))
        gate.release(tid, grant=grant)
    gate.finish()
    conn._closed = True
    out.append(dict(trace=trace, written=len(chan.frames), queued=len(conn._send_queue)))
print(json.dumps(out))
'''


def main():
    run = Run("C12", level="model_checking")
    thorough = run.tier == "thorough"
    run.assumptions = [
        "atomicity = one source statement of Connection._send (the granularity the property names); byte-code level pre-emption inside a statement is outside the claim",
        "list.append / list.pop(0) / Lock.acquire(False) / Lock.release are atomic (CPython GIL contract)",
        "brine.dump returns the message; channel.send = begin-write ... end-write with at most one re-entrant _send per thread in between",
    ]
    run.outside = ["more threads / messages than the stated configurations", "transport failures during the write (C11)"]
    configs = [(2, 1, False, None), (1, 1, True, None), (2, 1, True, 3), (2, (1, 2), False, 3)]
    if thorough:
        configs += [(2, 1, True, None), (2, 2, False, None), (3, 1, False, 3)]
    states = transitions = 0
    validated = 0

    def mk(T, M, re, mp):
        def ob(o):
            nonlocal states, transitions
            cfg, model, bmc, info = run_config(run, o, T, M, re, 3000 if thorough else 600, mp)
            states += info["steps"] * T
            transitions += info["steps"] * info["locations"] * T
            run.functions_encoded[cfg.name] = cfg.describe()
            o.bounds = info
        return ob
    for (T, M, re, mp) in configs:
        run.obligation("BMC_%dx%s%s%s" % (T, M if isinstance(M, int) else "".join(map(str, M)), "_reentrant" if re else "", "_p%d" % mp if mp else ""),
                       "%d threads x %s messages%s: no overlap, exactly once, per-thread order, queue empty, lock free; unwinding checked" % (
                           T, M, ", re-entrant send" if re else ""), mk(T, M, re, mp))

    def conf(o):
        nonlocal validated
        if any(x.verdict == "violated" for x in run.obligations):
            o.detail = "skipped: a model-checking obligation already reported a replayed violation"
            return
        validated = conformance(run, o, 40 if not thorough else 200, 2, 1)
        o.validated = validated
        o.samples.append({"random_schedules_replayed_on_real_threads_and_predicted_by_the_model": validated})
    run.obligation("T0_conformance", "model predicts the line trace and final state of seeded random schedules on the real code", conf)
    run.extra = dict(states=max(1, states), transitions=max(1, transitions), traces_validated_against_impl=validated,
                     explanation="states = unrolled steps x threads, transitions = steps x CFG locations x threads per configuration (symbolic, all schedules at once)")
    sys.exit(run.finish())


if __name__ == "__main__":
    main()
