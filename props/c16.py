"""C16 -- a server keeps serving good clients correctly whatever bad clients do.

Encoded (re-read from /repo at every run, interpreted by engine S): the methods of
rpyc/utils/server.py reached by the histories (accept loop, per-client thread / process,
thread-pool poller / workers / bookkeeping).  Environment = props/srv_world.py; rpyc.core
runs natively on the model sockets -- what a single connection does with arbitrary bytes is
C04/C05/C07/C08, here the bytes of misbehaving clients are concrete representatives of each
failure class (absurd length, corrupt zlib, undecodable payload, truncated header).
"""
import errno
import sys

import z3

from engine import core
from engine.harness import Run, Acc, par_explore
from engine.interp import Interp
from engine.values import SymInt
from props import srv_world as W
from props.c17 import explore, translator_validation

ALPHABET = ["G", "C", "Lf", "Lr", "B-huge-length", "B-bad-zlib", "B-bad-brine", "B-truncated", "B-reset-early", "B-silent", "B-bad-token",
            "B-lying-KeyboardInterrupt", "B-lying-SystemExit"]
KINDS = ["threaded", "pool", "forking"]


# errno values of accept() that the behaviour of clients can provoke on a healthy server: POSIX ECONNABORTED ("a connection has
# been aborted") and exhaustion of per-process / system-wide descriptors or buffers by the number of clients (the set CPython's
# own asyncio server treats as "log and keep accepting")
INDUCIBLE = {"ECONNABORTED": errno.ECONNABORTED, "EMFILE": errno.EMFILE, "ENFILE": errno.ENFILE, "ENOBUFS": errno.ENOBUFS, "ENOMEM": errno.ENOMEM}


def ob_accept_fault(run, interp):
    def ob(o):
        o.symbolic = ["errno of a failing accept() call: Int in 1..200 (solver variable)", "server class: %s (exhaustive)" % KINDS,
                      "position of the failure: before / after a well-behaved client is being served"]
        o.bounds = {"failing_accept_calls": 1}
        o.stubs = ["listener.accept() raises OSError(errno) once; everything else as in O1"]
        acc = Acc()

        def harness(c):
            kind = KINDS[c.choose(len(KINDS), "server")]
            pos = c.choose(2, "position")
            E = c.fresh_int("errno")
            c.assume(z3.And(E >= 1, E <= 200))
            sc = W.Scenario(kind, False, interp)
            c.notes.update(kind=kind, pos=pos, E=E)
            try:
                if pos == 1:
                    sc.apply("G")
                    sc.apply("C")
                sc.accept_fails(SymInt(E))
                sc.settle()
                return W.judge(sc, "C16")
            finally:
                sc.finish()

        def on_path(r):
            if r.outcome == "abort":
                return
            n = r.ctx.notes
            c = r.ctx
            if r.outcome == "bound":
                raise core.BoundExceeded(str(r.exc))
            if r.outcome == "raise":
                raise core.HarnessError("accept-fault history on %s raised %r" % (n["kind"], r.exc))
            bad, summary = r.value
            E = n["E"]
            acc.inc("survives" if not bad else "ends")
            if len(o.samples) < 6:
                m = c.check_model()
                o.samples.append({"server": n["kind"], "errno_example": m.eval(E, model_completion=True).as_long() if m is not None else None,
                                  "outcome": [b[0] for b in bad] or "keeps serving"})
            if not bad:
                return
            # the server stopped serving on this path: no client-inducible errno may lead here
            ok, model = c.must_hold(z3.Not(z3.Or(*[E == v for v in INDUCIBLE.values()])))
            if ok:
                return
            ev = model.eval(E, model_completion=True).as_long()
            name = [k for k, v in INDUCIBLE.items() if v == ev][0]
            sig = "accept-errno:%s" % n["kind"]
            if any(v["signature"] == sig for v in o.violations):
                return
            run.replay(o, sig, "accept() failing with %s (errno %d, which clients can provoke) ends the accept loop: %s (server %s)" % (name, ev, bad[0][1], n["kind"]),
                       """# replay of a counterexample found by /verif (property C16): real rpyc/utils/server.py over the model of props/srv_world.py
import sys
sys.path.insert(0, __import__("os").environ.get("VERIF_REPO", "/repo")); sys.path.insert(0, "/verif")
from props import srv_world as W
sc = W.Scenario(%r, False)
try:
    if %d == 1:
        sc.apply("G"); sc.apply("C")
    sc.accept_fails(%d)
    sc.settle()
    bad, summary = W.judge(sc, "C16")
finally:
    sc.finish()
for b in bad: print(b)
if bad:
    print("REPRODUCED"); sys.exit(1)
""" % (n["kind"], n["pos"], ev))

        n_, incomplete = par_explore(run, o, harness, on_path, acc, split_depth=3)
        o.paths = dict(acc.counts, total=n_)
        if incomplete:
            o.verdict = "inconclusive"
            o.detail = incomplete
        if not acc.counts.get("survives") or not acc.counts.get("ends"):
            raise core.HarnessError("reachability twin: both a surviving and an ending errno class must exist (EINTR vs EBADF): %s" % acc.counts)
    return ob


def main():
    run = Run("C16", level="other")
    interp = Interp(interpret_prefixes=("rpyc.utils.server",), loop_bound=2000)
    thorough = run.tier == "thorough"
    run.assumptions = [
        "environment model (props/srv_world.py); misbehaving clients: absurd length field / corrupt compressed data / undecodable payload / truncated header "
        "(then gone), reset before the server looks at the socket (getpeername fails), silent forever, wrong authentication token, "
        "a protocol-speaking client that answers the server's nested INSPECT question with an exception reply naming KeyboardInterrupt / SystemExit",
        "every misbehaving client that sends garbage eventually goes away (a client that leaves half a frame and stays pins one serving thread: outside the claim)",
        "schedules: one settled interleaving per history",
    ]
    run.outside = ["real kernels and sockets, resource exhaustion (descriptors, memory, backlog)", "a pool worker pinned by a partial frame on a socket that never closes",
                   "the one-shot and gevent servers", "all byte strings at the connection level: C04/C05/C07/C08"]
    run.obligation("O0_translator_validation", "interpreter == CPython on sample histories of every server class", translator_validation(run, interp, "C16"))
    run.obligation("O1_histories", "after any history of misbehaving and well-behaved clients: the accept loop and the pool threads are alive, every well-behaved client "
                   "(and a fresh one) is answered correctly, each by its own service instance", explore(run, interp, "C16", ALPHABET, 4 if thorough else 3, KINDS))
    run.obligation("O2_accept_errno", "a failing accept() whose errno clients can provoke (aborted connection, descriptor/buffer exhaustion) does not end the accept loop",
                   ob_accept_fault(run, interp))
    run.note_encoded(interp)
    sys.exit(run.finish())


if __name__ == "__main__":
    main()
