"""Attribute policy oracle (C06, C07), written from the property text only.

  "the kind of operation must be enabled and the name must be allowed
   (everything / exposed-prefix / safe-list / public, as enabled) or have an
   exposed-prefixed twin on the object, which is then what is accessed;
   anything else fails with AttributeError"

Weakest reading (never stricter than the text): the set of permitted targets of
a request for `name` is
    { name            if the operation is enabled and name is allowed }
  U { prefix + name   if the operation is enabled, exposed attributes are
                      enabled, the prefix is non-empty and the object has
                      prefix+name }
A normal result must be a member of that set; a refusal (AttributeError from
the policy) is correct iff the set is empty.  When both members are present:
an allowed name that exists on the object is itself what is accessed (the twin
is "then what is accessed" only for a name that could not be accessed as such);
when the allowed name does not exist on the object the text does not say
whether the twin may stand in, so either is accepted.

This module never imports or calls rpyc.
"""
import z3


def _lit(s):
    out = []
    for ch in s:
        o = ord(ch)
        out.append(ch if 32 <= o < 127 and ch != "\\" else "\\u{%x}" % o)
    return z3.StringVal("".join(out))


def decision(cfg, perm, name, has, safe_names):
    """cfg: dict of z3 terms for the 7 switches and 'exposed_prefix';
    perm: which of allow_getattr/allow_setattr/allow_delattr governs the operation;
    name: z3 String; has: term -> Bool (object has that attribute);
    safe_names: the connection's safe list (concrete set of str).
    Returns (allowed, twin, twin_name) as z3 terms."""
    enabled = cfg[perm]
    prefix = cfg["exposed_prefix"]
    in_safe = z3.Or(*[name == _lit(s) for s in sorted(safe_names)]) if safe_names else z3.BoolVal(False)
    allowed = z3.And(enabled, z3.Or(
        cfg["allow_all_attrs"],
        z3.And(cfg["allow_exposed_attrs"], z3.PrefixOf(prefix, name)),
        z3.And(cfg["allow_safe_attrs"], in_safe),
        z3.And(cfg["allow_public_attrs"], z3.Not(z3.PrefixOf(z3.StringVal("_"), name)))))
    twin_name = z3.Concat(prefix, name)
    twin = z3.And(enabled, cfg["allow_exposed_attrs"], z3.Length(prefix) > 0, has(twin_name))
    return allowed, twin, twin_name


def result_ok(allowed, twin, twin_name, name, got, has_name=None):
    """a normal result `got` is a permitted target; has_name: the object has an attribute called `name`"""
    if has_name is None:
        return z3.Or(z3.And(allowed, got == name), z3.And(twin, got == twin_name))
    return z3.Or(z3.And(allowed, got == name), z3.And(twin, z3.Not(z3.And(allowed, has_name)), got == twin_name))


def refusal_ok(allowed, twin):
    """a refusal by the policy is right iff nothing is permitted"""
    return z3.And(z3.Not(allowed), z3.Not(twin))
