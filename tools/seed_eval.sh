#!/bin/bash
# usage: tools/seed_eval.sh <seed-name> <property> <dir with patch.diff demo.py notes.md> [notests]
# Confirms a seeded breaking change in a scratch worktree (never in /repo): the demonstration passes without and fails with
# the change, the repository's test suite still passes with it, and runs the property's quick check against it.
name=$1; prop=$2; src=$3; notests=$4
wt=/tmp/seed_$name
out=/verif/seeded/$name
git -C /repo worktree remove --force $wt 2>/dev/null; rm -rf $wt
git -C /repo worktree add -q --detach $wt HEAD || exit 9
if ! git -C $wt apply --whitespace=nowarn $src/patch.diff; then echo "PATCH DOES NOT APPLY"; git -C /repo worktree remove --force $wt; exit 9; fi
mkdir -p $out; cp $src/patch.diff $out/patch.diff; cp $src/demo.py $out/demo.py; [ -f $src/notes.md ] && cp $src/notes.md $out/notes.md
cd $out
PYTHONPATH=/repo timeout 300 /venv/bin/python demo.py > /tmp/seed_$name.demo0 2>&1; d0=$?
PYTHONPATH=$wt timeout 300 /venv/bin/python demo.py > /tmp/seed_$name.demo1 2>&1; d1=$?
echo "demo without change: exit $d0 ($(tail -1 /tmp/seed_$name.demo0 | cut -c1-60)) | with change: exit $d1 ($(tail -1 /tmp/seed_$name.demo1 | cut -c1-60))"
tests="skipped"
if [ -z "$notests" ]; then
  tests=$(cd $wt && PYTHONPATH=$wt timeout 1200 /venv/bin/python -m pytest -q -p no:cacheprovider --timeout=900 --continue-on-collection-errors tests/ 2>&1 | grep -E "passed|failed" | tail -1)
  echo "test suite with the change: $tests"
fi
cd /verif
VERIF_REPO=$wt PYTHONPATH=$wt timeout ${TMO:-3000} ./check $prop quick > /tmp/seed_$name.check 2>&1; rc=$?
grep -E "VIOLATION|what:|NOT-OK|OK tier|INCONCLUSIVE|HARNESS|KNOWN" /tmp/seed_$name.check | head -4 | cut -c1-300
python3 - "$name" "$prop" "$d0" "$d1" "$tests" "$rc" <<'PY'
import json, sys, subprocess
name, prop, d0, d1, tests, rc = sys.argv[1:7]
log = open('/tmp/seed_%s.check' % name).read()
viol = [l for l in log.splitlines() if l.startswith('VIOLATION') or l.strip().startswith('what:')][:4]
notes = ''
try: notes = open('/verif/seeded/%s/notes.md' % name).read()
except Exception: pass
meta = dict(seed=name, property=prop, base_commit=subprocess.check_output(['git','-C','/repo','rev-parse','--short','HEAD']).decode().strip(),
            needs_to_manifest=notes[:1500],
            confirmed=dict(demo_exit_without_change=int(d0), demo_exit_with_change=int(d1), test_suite_with_change=tests),
            ran=["PYTHONPATH=/repo /venv/bin/python demo.py", "PYTHONPATH=<worktree with patch> /venv/bin/python demo.py",
                 "cd <worktree> && PYTHONPATH=<worktree> /venv/bin/python -m pytest -q -p no:cacheprovider --timeout=900 --continue-on-collection-errors tests/",
                 "VERIF_REPO=<worktree> ./check %s quick" % prop],
            check_exit=int(rc), detected=(int(rc) == 1), check_output=viol)
json.dump(meta, open('/verif/seeded/%s/meta.json' % name, 'w'), indent=1)
print("detected:", meta['detected'], "exit", rc)
PY
git -C /repo worktree remove --force $wt; git -C /repo worktree prune
