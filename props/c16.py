"""C16 -- a server keeps serving good clients correctly whatever bad clients do.

Encoded (re-read from /repo at every run, interpreted by engine S): the methods of
rpyc/utils/server.py reached by the histories (accept loop, per-client thread / process,
thread-pool poller / workers / bookkeeping).  Environment = props/srv_world.py; rpyc.core
runs natively on the model sockets -- what a single connection does with arbitrary bytes is
C04/C05/C07/C08, here the bytes of misbehaving clients are concrete representatives of each
failure class (absurd length, corrupt zlib, undecodable payload, truncated header).
"""
import errno
import sys

import z3

from engine import core
from engine.harness import Run, Acc, par_explore
from engine.interp import Interp
from engine.values import SymInt
from props import srv_world as W
from props.c17 import explore, translator_validation

ALPHABET = ["G", "C", "Lf", "Lr", "B-huge-length", "B-bad-zlib", "B-bad-brine", "B-truncated", "B-reset-early", "B-silent", "B-bad-token"]
KINDS = ["threaded", "pool", "forking"]


def main():
    run = Run("C16", level="other")
    interp = Interp(interpret_prefixes=("rpyc.utils.server",))
    thorough = run.tier == "thorough"
    run.assumptions = [
        "environment model (props/srv_world.py); misbehaving clients: absurd length field / corrupt compressed data / undecodable payload / truncated header "
        "(then gone), reset before the server looks at the socket (getpeername fails), silent forever, wrong authentication token",
        "every misbehaving client that sends garbage eventually goes away (a client that leaves half a frame and stays pins one serving thread: outside the claim)",
        "schedules: one settled interleaving per history",
    ]
    run.outside = ["real kernels and sockets, resource exhaustion (descriptors, memory, backlog)", "a pool worker pinned by a partial frame on a socket that never closes",
                   "the one-shot and gevent servers", "all byte strings at the connection level: C04/C05/C07/C08"]
    run.obligation("O0_translator_validation", "interpreter == CPython on sample histories of every server class", translator_validation(run, interp, "C16"))
    run.obligation("O1_histories", "after any history of misbehaving and well-behaved clients: the accept loop and the pool threads are alive, every well-behaved client "
                   "(and a fresh one) is answered correctly, each by its own service instance", explore(run, interp, "C16", ALPHABET, 4 if thorough else 3, KINDS))
    run.note_encoded(interp)
    sys.exit(run.finish())


if __name__ == "__main__":
    main()
