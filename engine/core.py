"""Engine S core: path contexts, decision-replay DFS explorer, solver discipline.

Every symbolic execution of a harness is one *path*.  A path runs the harness
from the start, following a recorded prefix of decisions and extending it; a
decision is taken whenever the truth of a solver term (or a finite
nondeterministic choice) is needed.  Feasibility of each alternative is decided
by a *fresh* z3 solver per query (z3's incremental string solver stalls on
queries that are trivial from a fresh solver, see DESIGN.md section 9).
"""
import itertools
import time

import z3

# ----------------------------------------------------------------------------
# outcomes that are *not* verdicts
# ----------------------------------------------------------------------------


class Unsupported(Exception):
    """A construct outside the interpreter subset / without a model: the run is
    inconclusive (exit 2), never a violation."""


class HarnessError(Exception):
    """Translator validation or replay mismatch (exit 3)."""


class PathAbort(BaseException):
    """The current path is infeasible or was cut by an assumption."""


class Pruned(BaseException):
    """The subtree belongs to another parallel worker."""


class BoundExceeded(BaseException):
    """A loop/recursion would need more iterations than the stated bound on a
    feasible path: the unwinding assertion failed -> inconclusive."""


# ----------------------------------------------------------------------------
# solver statistics and the single entry point to the solver
# ----------------------------------------------------------------------------

class Stats(object):
    def __init__(self):
        self.queries = 0
        self.sat = 0
        self.unsat = 0
        self.unknown = 0
        self.solver_s = 0.0
        self.paths = 0
        self.model_hits = 0

    def as_dict(self):
        return dict(queries=self.queries, sat=self.sat, unsat=self.unsat,
                    unknown=self.unknown, solver_s=round(self.solver_s, 3),
                    paths=self.paths, model_hits=self.model_hits)

    def add(self, other):
        for k in ("queries", "sat", "unsat", "unknown", "solver_s", "paths", "model_hits"):
            setattr(self, k, getattr(self, k) + getattr(other, k))


STATS = Stats()
QUERY_TIMEOUT_MS = 10000
SLOW_QUERY_S = 1.0
SLOW_LOG = [] if __import__("os").environ.get("VERIF_SLOWLOG") else None


def solve(constraints, timeout_ms=None):
    """Decide the conjunction of `constraints` with a fresh solver.
    Returns ('sat', model) / ('unsat', None) / ('unknown', None)."""
    s = z3.Solver()
    s.set("timeout", int(timeout_ms or QUERY_TIMEOUT_MS))
    for c in constraints:
        s.add(c)
    t0 = time.time()
    r = s.check()
    dt = time.time() - t0
    STATS.solver_s += dt
    if dt > SLOW_QUERY_S and SLOW_LOG is not None:
        SLOW_LOG.append((round(dt, 2), str(r), [str(c)[:160] for c in constraints][-6:]))
        import sys as _s
        _s.stderr.write("SLOW %.1fs %s %s\n" % (dt, r, [str(c)[:200] for c in constraints][-8:]))
        _s.stderr.flush()
    STATS.queries += 1
    if r == z3.sat:
        STATS.sat += 1
        return "sat", s.model()
    if r == z3.unsat:
        STATS.unsat += 1
        return "unsat", None
    STATS.unknown += 1
    return "unknown", None


INCREMENTAL = True     # per-path incremental solver (push/pop).  Harnesses whose path conditions contain
#                        z3 strings set this to False: z3's incremental string solver stalls (DESIGN.md section 9).


def is_true(e):
    return z3.is_true(e)


def is_false(e):
    return z3.is_false(e)


# ----------------------------------------------------------------------------
# path context
# ----------------------------------------------------------------------------

_CURRENT = [None]


def ctx():
    c = _CURRENT[0]
    if c is None:
        raise Unsupported("symbolic operation outside of a path context")
    return c


def have_ctx():
    return _CURRENT[0] is not None


class Ctx(object):
    """State of one path."""

    def __init__(self, explorer, prefix):
        self.explorer = explorer
        self.prefix = prefix          # decisions (ints) to replay
        self.pos = 0
        self.pc = []                  # path condition (list of z3 Bool)
        self.model = None             # a model of pc, when known
        self._names = {}
        self._solver = None
        self._synced = 0
        self._facts = set()
        self.log = []                 # effect log (harness-defined tuples)
        self.notes = {}               # free-form per-path data for harnesses
        self.maybe_infeasible = False
        self.frozen = False           # set when the path has ended: oracles may query but not fork
        self.ended = False            # the harness function has returned (post-path oracle code is running)
        self.depth = 0                # interpreter call depth

    # -- fresh symbols (deterministic names so replayed prefixes line up) -----
    def _name(self, hint):
        n = self._names.get(hint, 0)
        self._names[hint] = n + 1
        return "%s!%d" % (hint, n)

    def fresh_int(self, hint="i"):
        return z3.Int(self._name(hint))

    def fresh_bool(self, hint="b"):
        return z3.Bool(self._name(hint))

    def fresh_str(self, hint="s"):
        return z3.String(self._name(hint))

    def fresh_real(self, hint="r"):
        return z3.Real(self._name(hint))

    # -- solver access ---------------------------------------------------------
    def query(self, extra):
        """sat/unsat/unknown of pc + extra (list of terms); returns (result, model)"""
        if not INCREMENTAL:
            return solve(self.pc + list(extra))
        s = self._solver
        if s is None:
            s = self._solver = z3.Solver()
            s.set("timeout", int(QUERY_TIMEOUT_MS))
            self._synced = 0
        while self._synced < len(self.pc):
            s.add(self.pc[self._synced])
            self._synced += 1
        s.push()
        try:
            for e in extra:
                s.add(e)
            t0 = time.time()
            r = s.check()
            dt = time.time() - t0
            STATS.solver_s += dt
            STATS.queries += 1
            if r == z3.sat:
                STATS.sat += 1
                return "sat", s.model()
            if r == z3.unsat:
                STATS.unsat += 1
                return "unsat", None
            STATS.unknown += 1
            return "unknown", None
        finally:
            s.pop()

    # -- constraints -----------------------------------------------------------
    def add_fact(self, cond):
        """append a contract fact (always satisfiable together with the path
        condition, e.g. the range of a byte) once"""
        k = cond.get_id()
        if k in self._facts:
            return
        self._facts.add(k)
        self.pc.append(cond)

    def assume(self, cond):
        """Add `cond` to the path condition; abort the path if it becomes
        infeasible.  Assumptions are part of the claim: harnesses list them."""
        cond = z3.simplify(cond) if not isinstance(cond, bool) else z3.BoolVal(cond)
        if is_true(cond):
            return
        if is_false(cond):
            raise PathAbort()
        if self.pos < len(self.prefix):
            # replaying: feasibility was established when the prefix was first run
            self.pc.append(cond)
            return
        if self.model is not None and is_true(self.model.eval(cond, model_completion=True)):
            STATS.model_hits += 1
            self.pc.append(cond)
            return
        r, m = self.query([cond])
        if r == "unsat":
            raise PathAbort()
        self.pc.append(cond)
        self.model = m
        if r == "unknown":
            self.maybe_infeasible = True

    def decide(self, options, label=""):
        """Take a decision among `options` (z3 Bool terms, or None for a free
        choice).  Returns the index taken.  Alternatives that the solver proves
        infeasible under the path condition are never taken."""
        ex = self.explorer
        if self.pos < len(self.prefix):
            k = self.prefix[self.pos]
            self.pos += 1
            if options[k] is not None:
                self.pc.append(options[k])
            self.model = None
            return k
        feasible = []
        models = {}
        for k, opt in enumerate(options):
            if opt is None:
                feasible.append(k)
                continue
            opt = z3.simplify(opt)
            if is_false(opt):
                continue
            if is_true(opt):
                feasible.append(k)
                models[k] = self.model
                continue
            if self.model is not None and is_true(self.model.eval(opt, model_completion=True)):
                STATS.model_hits += 1
                feasible.append(k)
                models[k] = self.model
                continue
            r, m = self.query([opt])
            if r == "unsat":
                continue
            if r == "unknown":
                self.maybe_infeasible = True
            feasible.append(k)
            models[k] = m
        if not feasible:
            # can only happen after an 'unknown' feasibility step
            raise PathAbort()
        if self.frozen:
            if len(feasible) > 1:
                raise Unsupported("an oracle needed to fork after the end of the path (%s)" % label)
            k = feasible[0]
            if options[k] is not None:
                self.pc.append(options[k])
            return k
        if ex.shard is not None and not self.ended and len(self.prefix) == ex.split_depth - 1:
            feasible = [k for k in feasible if _shard_of(self.prefix + [k], ex.shard[1]) == ex.shard[0]]
            if not feasible:
                raise Pruned()
        k = feasible[0]
        ex._push(k, feasible[1:], label)
        self.prefix = self.prefix + [k]
        self.pos += 1
        if options[k] is not None:
            self.pc.append(options[k])
        self.model = models.get(k)
        return k

    def branch(self, cond, label=""):
        """Python truth of a solver term; forks the path when both are possible."""
        if isinstance(cond, bool):
            return cond
        cond = z3.simplify(cond)
        if is_true(cond):
            return True
        if is_false(cond):
            return False
        return self.decide([cond, z3.Not(cond)], label) == 0

    def choose(self, n, label=""):
        """Finite nondeterministic choice 0..n-1 (exhaustive, never sampled)."""
        if n == 1:
            return 0
        return self.decide([None] * n, label)

    def check_model(self, extra=()):
        """A model of the path condition (+extra) or None if unsat; 'unknown'
        raises Unsupported (inconclusive)."""
        r, m = self.query(list(extra))
        if r == "unknown":
            raise Unsupported("solver answered unknown on a final query")
        return m

    def small_model(self, extra, size_terms, caps=(70000, 1 << 20, 1 << 24)):
        """a model of pc+extra preferring small values for `size_terms` (so that
        counterexamples can be rebuilt concretely); None if pc+extra is unsat"""
        for cap in caps:
            r, m = self.query(list(extra) + [t <= cap for t in size_terms])
            if r == "sat":
                return m
        r, m = self.query(list(extra))
        return m if r == "sat" else None

    def must_hold(self, cond):
        """Is `cond` implied by the path condition?  Returns (True, None) or
        (False, model).  unknown -> Unsupported."""
        if isinstance(cond, bool):
            cond = z3.BoolVal(cond)
        c = z3.simplify(cond)
        if is_true(c):
            return True, None
        r, m = self.query([z3.Not(c)])
        if r == "unsat":
            return True, None
        if r == "unknown":
            raise Unsupported("solver answered unknown on a final query")
        return False, m


class PathResult(object):
    __slots__ = ("outcome", "value", "exc", "ctx", "decisions")

    def __init__(self, outcome, value, exc, c):
        self.outcome = outcome    # 'return' | 'raise' | 'abort' | 'bound'
        self.value = value
        self.exc = exc
        self.ctx = c
        self.decisions = list(c.prefix)


class Explorer(object):
    """Depth-first exploration of all feasible paths of `fn(ctx)`."""

    def __init__(self, max_paths=20000, deadline=None, shard=None, split_depth=2):
        self.max_paths = max_paths
        self.deadline = deadline
        self.allow_bound = False        # harnesses that inspect 'bound' outcomes themselves set this
        self.shard = shard              # (i, n): this explorer owns the i-th of n parts of the tree
        self.split_depth = split_depth
        self.stack = []     # [choice, remaining alternatives, label]
        self.incomplete = None

    def _push(self, k, rest, label):
        self.stack.append([k, list(rest), label])

    def run(self, fn, on_path=None):
        """Runs fn(ctx) on every path.  fn may raise; the outcome is recorded.
        Returns the list of PathResult (or calls on_path for each and returns
        the count)."""
        results = []
        prefix = []
        n = 0
        while True:
            if n >= self.max_paths:
                self.incomplete = "max_paths=%d reached" % self.max_paths
                break
            if self.deadline is not None and time.time() > self.deadline:
                self.incomplete = "time budget reached after %d paths" % n
                break
            self.stack = self.stack[:len(prefix)]
            c = Ctx(self, list(prefix))
            prev = _CURRENT[0]
            _CURRENT[0] = c
            try:
                try:
                    v = fn(c)
                    res = PathResult("return", v, None, c)
                except Pruned:
                    res = None
                except PathAbort:
                    res = PathResult("abort", None, None, c)
                except BoundExceeded as e:
                    if not self.allow_bound:
                        raise          # the unwinding assertion failed on a feasible path: the run is inconclusive
                    res = PathResult("bound", None, e, c)
                except Unsupported:
                    raise
                except HarnessError:
                    raise
                except BaseException as e:
                    # SystemExit / KeyboardInterrupt / any other BaseException raised by the code under test are outcomes too
                    res = PathResult("raise", None, e, c)
            finally:
                _CURRENT[0] = prev
            if res is not None and self.shard is not None and len(c.prefix) < self.split_depth:
                # short path: reported by exactly one worker
                if _shard_of(c.prefix, self.shard[1]) != self.shard[0]:
                    res = None
            if res is not None:
                n += 1
                STATS.paths += 1
            c.frozen = True
            c.ended = True
            if res is None:
                pass
            elif on_path is not None:
                _CURRENT[0] = c
                try:
                    on_path(res)
                finally:
                    _CURRENT[0] = prev
            else:
                results.append(res)
            # backtrack
            while self.stack and not self.stack[-1][1]:
                self.stack.pop()
            if not self.stack:
                break
            top = self.stack[-1]
            top[0] = top[1].pop(0)
            prefix = [e[0] for e in self.stack]
        return results if on_path is None else n


def _shard_of(choices, n):
    h = 7
    for k in choices:
        h = (h * 31 + k + 1) % 1000003
    return h % n


def explore(fn, max_paths=20000, deadline=None):
    ex = Explorer(max_paths=max_paths, deadline=deadline)
    res = ex.run(fn)
    return res, ex


def with_ctx(c, fn, *a, **kw):
    """Run fn under path context c (used for post-path checks)."""
    prev = _CURRENT[0]
    _CURRENT[0] = c
    try:
        return fn(*a, **kw)
    finally:
        _CURRENT[0] = prev


class ConcreteCtx(Ctx):
    """A context for concrete-mode runs (translator validation): no symbolic
    decision may ever be needed."""

    def __init__(self):
        Ctx.__init__(self, None, [])

    def decide(self, options, label=""):
        raise HarnessError("symbolic decision requested in concrete mode (%s)" % label)


def run_concrete(fn, *a, **kw):
    c = ConcreteCtx()
    return with_ctx(c, fn, *a, **kw)
