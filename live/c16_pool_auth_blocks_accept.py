"""Live demonstration (real sockets, real threads, no model) for property C16:
a ThreadPoolServer with an authenticator authenticates on its accept thread, so one client that
connects and then stays silent during authentication stops the server from accepting anybody else.

usage: PYTHONPATH=<rpyc tree> /venv/bin/python c16_pool_auth_blocks_accept.py [pool|threaded]
exit 1 + REPRODUCED when the well-behaved client is not served.
"""
import os, sys, socket, time, threading, logging
sys.path.insert(0, os.environ.get("VERIF_REPO", "/repo"))
import rpyc
from rpyc.utils.server import ThreadPoolServer, ThreadedServer
from rpyc.utils.authenticators import AuthenticationError

kind = sys.argv[1] if len(sys.argv) > 1 else "pool"
logging.disable(logging.CRITICAL)


def token_authenticator(sock):
    # like an SSL handshake: reads from the client before anything else
    if sock.recv(4) != b"GOOD":
        raise AuthenticationError("bad token")
    return sock, "user"


class Svc(rpyc.Service):
    def exposed_ping(self):
        return "pong"


cls = {"pool": ThreadPoolServer, "threaded": ThreadedServer}[kind]
kw = dict(hostname="127.0.0.1", port=0, auto_register=False, authenticator=token_authenticator)
if kind == "pool":
    kw["nbThreads"] = 2
srv = cls(Svc, **kw)
srv._start_in_thread()
silent = socket.create_connection(("127.0.0.1", srv.port))      # connects, never sends its token
time.sleep(0.5)
result = []


def good_client():
    try:
        s = socket.create_connection(("127.0.0.1", srv.port), timeout=5)
        s.sendall(b"GOOD")
        conn = rpyc.connect_stream(rpyc.SocketStream(s), config=dict(sync_request_timeout=5))
        result.append(conn.root.ping())
    except Exception as e:
        result.append(repr(e))


t = threading.Thread(target=good_client)
t.daemon = True
t.start()
t.join(8)
print("well-behaved client, connecting while another client is silent in authentication, got:", result or "nothing within 8 s")
if result != ["pong"]:
    print("REPRODUCED")
    os._exit(1)
os._exit(0)
