"""C10 -- objects lent to the peer live exactly as long as the peer holds them.

O1 (inductive step, symbolic counts): from an arbitrary state satisfying the
reference-count invariant, one real transition (box again / unbox / proxy
finalizer / release notice handled) re-establishes it; at quiescence the owner's
table has no entry; a live proxy always resolves.
O2 (bounded histories): all orders of sending, dropping and delivering the two
one-way message streams on two real connections with manual frame delivery.
"""
import sys

import z3

from engine import core, values as V
from engine.core import ctx
from engine.harness import Run, Acc, par_explore
from engine.interp import Interp
from engine.values import Sym, SymInt
from props import l2


class Lent(set):
    """the lent object: a plain `set` (its proxy class is pre-generated, so no class inspection round-trip is needed;
    sets are weak-referenceable)"""


def new_lent():
    return set()


def invariant(slot, c, alive, p, r, dels):
    """refcount_inv: the owner's slot exists iff something on the peer's side or in flight still refers to the object,
    and then  count + 1 == proxy.count (if alive) + references in flight + counts of release notices in flight"""
    total = (z3.If(alive, p, 0) if not isinstance(alive, bool) else (p if alive else z3.IntVal(0))) + r + sum(dels, z3.IntVal(0))
    nothing = z3.And(z3.Not(alive) if not isinstance(alive, bool) else z3.BoolVal(not alive), r == 0, *[d == 0 for d in dels])
    return z3.If(slot, c + 1 == total, nothing)


def ob_inductive(run, interp):
    from rpyc.core.protocol import Connection
    from rpyc.core import consts, netref
    from rpyc.lib import get_id_pack
    TRANS = ["box-again", "unbox", "proxy-finalizer", "release-handled", "reply-dropped-unread", "box-twice-in-one-tuple"]

    def ob(o):
        o.symbolic = ["owner's count c: Int >= 0; slot present?: Bool", "proxy alive?: Bool; proxy's count p: Int >= 1",
                      "references in flight r: Int >= 0", "release notices in flight: 0..2 with counts d_i: Int >= 1", "transition: one of %s" % TRANS]
        o.bounds = {"inductive": "one transition from an arbitrary state satisfying the invariant (covers histories of any length if the invariant is right)",
                    "release_notices_in_flight": 2}
        acc = Acc()

        def harness(c):
            l2.install_identity_codec(interp)
            owner = l2.make_conn(l2.ListChannel())
            peer = l2.make_conn(l2.ListChannel())
            obj = new_lent()
            idp = get_id_pack(obj)
            slot = c.choose(2, "slot") == 1
            cnt = c.fresh_int("c")
            alive = c.choose(2, "alive") == 1
            p = c.fresh_int("p")
            r = c.fresh_int("r")
            nd = c.choose(3, "dels")
            dels = [c.fresh_int("d%d" % i) for i in range(nd)]
            c.assume(z3.And(cnt >= 0, p >= 1, r >= 0, *[d >= 1 for d in dels]))
            c.assume(invariant(z3.BoolVal(slot), cnt, alive, p, r, dels))
            if slot:
                owner._local_objects._dict[idp] = [obj, SymInt(cnt)]
            proxy = None
            if alive:
                proxy = peer._netref_factory((str(idp[0]), idp[1], idp[2]))
                object.__setattr__(proxy, "____refcount__", SymInt(p))
                peer._proxy_cache[(str(idp[0]), idp[1], idp[2])] = proxy
            tr = TRANS[c.choose(len(TRANS), "transition")]
            c.notes.update(owner=owner, peer=peer, obj=obj, idp=idp, slot=slot, cnt=cnt, alive=alive, p=p, r=r, dels=dels, tr=tr, proxy=proxy)
            if tr == "box-again":
                out = interp.call(Connection._box, (owner, obj))
            elif tr == "box-twice-in-one-tuple":
                # f(x, x): two references go in flight with one message
                out = interp.call(Connection._box, (owner, (obj, 5, obj)))
            elif tr == "unbox":
                c.assume(r >= 1)
                out = interp.call(Connection._unbox, (peer, (consts.LABEL_REMOTE_REF, idp)))
            elif tr == "proxy-finalizer":
                if not alive:
                    c.assume(False)
                out = interp.call(netref.BaseNetref.__del__, (proxy,))
            elif tr == "reply-dropped-unread":
                # the reference in flight is the result of an asynchronous request; the reply is delivered and the result
                # object is then dropped without anybody having read its value
                from rpyc.core.async_ import AsyncResult
                c.assume(r >= 1)
                res = interp.call(AsyncResult, (peer,))
                peer._request_callbacks[77] = res
                interp.call(Connection._dispatch, (peer, l2.Frame((consts.MSG_REPLY, 77, (consts.LABEL_REMOTE_REF, idp)))))
                held = []
                for k in type(res).__mro__:
                    for sl in getattr(k, "__slots__", ()):
                        v = getattr(res, sl, None)
                        if isinstance(v, netref.BaseNetref) and v is not proxy:
                            held.append(v)
                for v in held:                     # dropping the result finalizes a proxy that only the result referred to
                    interp.call(netref.BaseNetref.__del__, (v,))
                out = (len(held), 77 in peer._request_callbacks)
            else:
                if not dels:
                    c.assume(False)
                out = interp.call(Connection._handle_del, (owner, obj, SymInt(dels[0])))
            return out

        def on_path(r_):
            c = r_.ctx
            if r_.outcome == "abort" or "tr" not in c.notes:
                return
            n = c.notes
            tr = n["tr"]
            acc.inc(tr)
            bad = None
            owner, peer, idp = n["owner"], n["peer"], n["idp"]
            cnt, p, r, dels, alive, slot = n["cnt"], n["p"], n["r"], list(n["dels"]), n["alive"], n["slot"]
            conds = []
            if r_.outcome != "return":
                bad = "%s raised %s: %s" % (tr, type(r_.exc).__name__ if r_.exc else r_.outcome, r_.exc)
            else:
                # post-state as left by the real code
                s2 = owner._local_objects._dict.get(idp)
                slot2 = s2 is not None
                cnt2 = V.term(s2[1]) if slot2 else z3.IntVal(0)
                if slot2 and s2[0] is not n["obj"]:
                    bad = "the slot holds another object"
                key = (str(idp[0]), idp[1], idp[2])
                alive2, p2, r2, dels2 = alive, p, r, dels
                if tr == "box-again":
                    r2 = r + 1
                    if r_.value[0] != 4 or tuple(r_.value[1]) != tuple(idp):
                        bad = "_box did not produce a reference to the object"
                elif tr == "box-twice-in-one-tuple":
                    refs = [x for x in r_.value[1] if type(x) is tuple and x[0] == consts.LABEL_REMOTE_REF and tuple(x[1]) == tuple(idp)] if r_.value[0] == consts.LABEL_TUPLE else []
                    r2 = r + len(refs)             # every occurrence on the wire is a reference the peer will count
                    if len(refs) != 2:
                        bad = "_box of (x, 5, x) produced %d references to x" % len(refs)
                elif tr == "unbox":
                    r2 = r - 1
                    px = r_.value
                    if alive and px is not n["proxy"]:
                        bad = "a second proxy was created while one is alive"
                    alive2 = True
                    p2 = V.term(object.__getattribute__(px, "____refcount__")) if isinstance(object.__getattribute__(px, "____refcount__"), Sym) \
                        else z3.IntVal(object.__getattribute__(px, "____refcount__"))
                elif tr == "proxy-finalizer":
                    alive2 = False
                    frames = peer._channel.out
                    if len(frames) != 1:
                        bad = "the finalizer sent %d messages" % len(frames)
                    else:
                        kind, seq, (handler, boxed) = frames[0].obj
                        if handler != consts.HANDLE_DEL:
                            bad = "finalizer sent handler %r" % (handler,)
                        else:
                            # boxed = TUPLE((LOCAL_REF id), (VALUE count))
                            sent = boxed[1][1][1]
                            dels2 = dels + [V.term(sent) if isinstance(sent, Sym) else z3.IntVal(sent)]
                elif tr == "reply-dropped-unread":
                    r2 = r - 1
                    if r_.value[1]:
                        bad = "the reply was not delivered to its request"
                    if alive:
                        cur = object.__getattribute__(n["proxy"], "____refcount__")
                        p2 = V.term(cur) if isinstance(cur, Sym) else z3.IntVal(cur)
                    for f in peer._channel.out:
                        kind, seq, (handler, boxed) = f.obj
                        if handler == consts.HANDLE_DEL:
                            sent = boxed[1][1][1]
                            dels2 = dels2 + [V.term(sent) if isinstance(sent, Sym) else z3.IntVal(sent)]
                else:
                    dels2 = dels[1:]
                conds.append(invariant(z3.BoolVal(slot2), cnt2, alive2, p2, r2, dels2))
                # a live proxy always resolves
                if alive2 is True:
                    conds.append(z3.BoolVal(slot2))
            if bad is None and conds:
                ok, model = c.must_hold(z3.And(*conds))
                if not ok:
                    vals = dict((k, model.eval(v, model_completion=True)) for k, v in (("c", cnt), ("p", p), ("r", r)))
                    bad = "reference-count invariant broken by %s from state slot=%s alive=%s %s dels=%s" % (
                        tr, slot, alive, vals, [model.eval(d, model_completion=True) for d in dels])
            if len(o.samples) < 6:
                o.samples.append({"transition": tr, "slot": slot, "alive": alive, "notices_in_flight": len(dels), "outcome": r_.outcome})
            if bad and len(o.violations) < 3:
                sig = "inductive:%s" % tr
                if any(v["signature"] == sig for v in o.violations):
                    return
                if tr == "reply-dropped-unread":
                    run.replay(o, sig, bad, HISTORY_RUNNER + REPLAY_DROPPED)
                    l2.retire(owner, peer)
                    return
                if tr == "box-twice-in-one-tuple":
                    run.replay(o, sig, bad, HISTORY_RUNNER + REPLAY_TWICE)
                    l2.retire(owner, peer)
                    return
                run.replay(o, sig, bad, HISTORY_RUNNER + '''
bad = []
for h in all_histories(6):
    b = run_history(h)
    if b:
        bad.append((h, b)); break
print(bad)
if bad:
    print("REPRODUCED"); sys.exit(1)
''')
            l2.retire(owner, peer)

        n_, incomplete = par_explore(run, o, harness, on_path, acc, split_depth=4)
        o.paths = dict(acc.counts, total=n_)
        if incomplete:
            o.verdict = "inconclusive"
            o.detail = incomplete
        for t in TRANS:
            if not acc.counts.get(t):
                raise core.HarnessError("reachability twin: %s" % acc.counts)
        # quiescence: invariant + nothing alive/in flight => no slot
        s, cn = z3.Bool("slot"), z3.Int("c")
        sol = z3.Solver()
        sol.add(cn >= 0, invariant(s, cn, False, z3.IntVal(1), z3.IntVal(0), []), s)
        if sol.check() != z3.unsat:
            raise core.HarnessError("the invariant does not imply an empty table at quiescence")
        o.detail = "invariant + quiescence => no table entry: unsat(neg)"
    return ob


REPLAY_TWICE = '''
# f(x, x): the same object twice in one message, then the release notice for both crosses a fresh reference
ca, cb = QChan(), QChan()
A = Connection(VoidService(), ca); B = Connection(VoidService(), cb)
obj = Lent()
idp = rpyc.lib.get_id_pack(obj)
bad = []
got = B._unbox(A._box((obj, 5, obj)))            # one proxy, counted twice by the peer
if got[0] is not got[2]: bad.append("two proxies for one object")
count_owner = A._local_objects._dict[idp][1]
count_proxy = object.__getattribute__(got[0], "____refcount__")
if count_owner != count_proxy: bad.append("owner counts %r references, the peer's proxy counts %r" % (count_owner, count_proxy))
del got; gc.collect()                               # the peer drops it: a release notice for the proxy's whole count goes out
fresh = B._unbox(A._box(obj))                       # meanwhile the owner lends it again and the peer unboxes it
while cb.q:
    A._dispatch(cb.q.pop(0)[1])                     # now the owner processes the release notice
if idp not in A._local_objects._dict:
    bad.append("the peer holds a live proxy, yet the owner has released the object")
print(bad)
if bad:
    print("REPRODUCED"); sys.exit(1)
'''


REPLAY_DROPPED = '''
# an object travels as the reply to an asynchronous request; the peer's AsyncResult receives it and is dropped unread
from rpyc.core.async_ import AsyncResult
ca, cb = QChan(), QChan()
A = Connection(VoidService(), ca); B = Connection(VoidService(), cb)
obj = Lent(); wr = weakref.ref(obj)
bad = []
for alive_before in (False, True):
    keep = B._unbox(A._box(obj)) if alive_before else None      # optionally the peer already holds a proxy
    res = AsyncResult(B); B._request_callbacks[77] = res
    frame = brine.dump((consts.MSG_REPLY, 77, A._box(obj)))          # the owner's reply: one more count at the owner
    B._dispatch(frame)                                                # delivered to the waiting result ...
    del res; gc.collect()                                             # ... which nobody ever reads
    keep = None; gc.collect()                                         # and the peer drops everything else it holds
    while cb.q:
        A._dispatch(cb.q.pop(0)[1])                                   # the owner processes every release notice
    idp = rpyc.lib.get_id_pack(obj)
    if idp in A._local_objects._dict:
        bad.append("the peer holds nothing and every release notice was processed, yet the owner still references the object (count %r)" % (A._local_objects._dict[idp][1],))
    A._local_objects.clear()
print(bad)
if bad:
    print("REPRODUCED"); sys.exit(1)
'''


HISTORY_RUNNER = '''
import rpyc.lib
import sys, gc, weakref, itertools
sys.path.insert(0, __import__("os").environ.get("VERIF_REPO", "/repo"))
from rpyc.core.protocol import Connection
from rpyc.core.service import VoidService
from rpyc.core import consts, brine
def Lent(): return set()        # proxy class is pre-generated: no INSPECT round trip; weak-referenceable
class QChan(object):
    def __init__(self): self.q = []
    def send(self, d): self.q.append(("frame", bytes(d)))
    def close(self): pass
def all_histories(n):
    one = ["".join(x) for k in range(1, n + 1) for x in itertools.product("SUDV", repeat=k)]
    two = ["".join(x) for k in range(2, n) for x in itertools.product("STUDV", repeat=k) if "T" in x]
    return one + two
def run_history(hist, nobj=2):
    """S/T: owner boxes object 0 / object 1 (a reference goes in flight)   U: the peer consumes the next owner->peer item
       D: the peer drops its oldest proxy                      V: the owner consumes the next peer->owner frame"""
    ca, cb = QChan(), QChan()
    A = Connection(VoidService(), ca); B = Connection(VoidService(), cb)
    objs = [Lent() for _ in range(nobj)]
    wr = [weakref.ref(o) for o in objs]
    held = []; bad = []; turn = 0
    def check():
        for p in held:
            idp = object.__getattribute__(p, "____id_pack__")
            try:
                o = A._local_objects[idp]
            except KeyError:
                bad.append("a live proxy no longer resolves at its owner"); return
    def step(ev):
        nonlocal turn
        if ev in "ST":
            o = objs[0 if ev == "S" else 1]
            ca.q.append(("ref", A._box(o)))
        elif ev == "U" and ca.q:
            kind, item = ca.q.pop(0)
            if kind == "ref": held.append(B._unbox(item))
            else: B._dispatch(item)
        elif ev == "D" and held:
            held.pop(0); gc.collect()
        elif ev == "V" and cb.q:
            kind, item = cb.q.pop(0)
            A._dispatch(item)
        check()
    try:
        for ev in hist: step(ev)
        # drain: drop everything, deliver everything
        del held[:]; gc.collect()
        for _ in range(200):
            if not ca.q and not cb.q: break
            if ca.q:
                kind, item = ca.q.pop(0)
                if kind == "ref":
                    p = B._unbox(item); del p; gc.collect()
                else: B._dispatch(item)
            if cb.q:
                A._dispatch(cb.q.pop(0)[1])
        if A._local_objects._dict: bad.append("owner still holds %d entries at quiescence" % len(A._local_objects._dict))
        del objs[:]; gc.collect()
        if any(w() is not None for w in wr): bad.append("a lent object is still alive after everything was released")
    except Exception as e:
        bad.append("raised %r" % (e,))
    A._closed = B._closed = True
    return bad
'''


def ob_histories(run, length):
    def ob(o):
        import subprocess
        import json
        import os
        import tempfile
        o.symbolic = ["history of <= %d events over {box an object, peer consumes next item, peer drops a proxy, owner consumes next frame} for 2 objects (exhaustive)" % length]
        o.bounds = {"history_length": length, "objects": 2, "decided_by": "exhaustive enumeration, native execution with manual frame delivery"}
        script = HISTORY_RUNNER + '''
import json
n = 0; bad = []
for h in all_histories(%d):
    n += 1
    b = run_history(h)
    if b: bad.append((h, b))
print(json.dumps(dict(n=n, bad=bad[:4])))
''' % length
        with tempfile.NamedTemporaryFile("w", suffix=".py", delete=False) as tf:
            tf.write(script)
        try:
            p = subprocess.run(["/venv/bin/python", tf.name], capture_output=True, text=True, timeout=1500,
                               env=dict(os.environ, PYTHONPATH=os.environ.get("VERIF_REPO", "/repo")))
        finally:
            os.unlink(tf.name)
        if p.returncode != 0:
            raise core.HarnessError("history runner failed: %s" % (p.stdout + p.stderr)[-500:])
        out = json.loads(p.stdout.strip().splitlines()[-1])
        o.paths = {"histories": out["n"]}
        o.samples.append({"histories_executed": out["n"], "examples": ["SUSUDDVV", "SSDUV", "SUDSVU"]})
        if out["bad"]:
            h, b = out["bad"][0]
            run.replay(o, "history:%s" % b[0].split()[0], "history %s: %s" % (h, b), HISTORY_RUNNER + '''
b = run_history(%r)
print(b)
if b:
    print("REPRODUCED"); sys.exit(1)
''' % (h,))
    return ob


def main():
    run = Run("C10", level="other")
    interp = Interp()
    thorough = run.tier == "thorough"
    run.assumptions = ["the induction principle (invariant holds initially and is preserved by every transition => holds on all histories)",
                       "transitions are those of the real code paths _box / _unbox / BaseNetref.__del__ / _handle_del; connection close (table cleared) is C11",
                       "the two-step weak-cache lookup racing the garbage collector on another thread is outside the claim"]
    run.obligation("O1_inductive_step", "each real transition preserves the reference-count invariant from an arbitrary state (symbolic counts)",
                   ob_inductive(run, interp))
    run.obligation("O2_histories", "bounded histories with the two message streams consumed in every order: proxies always resolve, nothing leaks at quiescence",
                   ob_histories(run, 7 if thorough else 6))
    run.note_encoded(interp)
    sys.exit(run.finish())


if __name__ == "__main__":
    main()
